"""Layer 1 contracts: numeric helpers of fxpmath/utils.py (bodies verified against the assumed
NumPy contracts only)."""
from fxpv.harness import Contract, contract
from specs.core import *
from contracts.common import *


@contract
class Wrap(Contract):
    """utils.wrap(x, signed, n_word): each element is the unique in-range integer congruent to the
    (integral) input modulo 2^n_word; object dtype iff n_word >= 64."""
    name = 'utils:wrap'
    layer = 1
    props = {'*': ['C03'], 'congruent': ['C03', 'C01', 'C18'], 'in_range': ['C03', 'C02', 'C18'], 'dtype': ['C18']}

    def configs(self, tier):
        words = [1, 2, 3, 8, 31, 32, 52, 63] if tier == 'quick' else list(range(1, 64))
        wide = [64, 65, 128, 256] if tier == 'quick' else [64, 65, 66, 72, 96, 127, 128, 129, 200, 256]
        for signed in (True, False):
            for n in words:
                for carrier in ('f64', 'i64'):
                    for shape in ((), (2,)) if tier == 'quick' else ((), (1,), (2,), (3,), (2, 2)):
                        yield dict(signed=signed, n_word=n, carrier=carrier, shape=list(shape))
            for n in wide:
                for carrier in ('objint', 'f64', 'i64'):
                    for shape in ((), (2,)):
                        yield dict(signed=signed, n_word=n, carrier=carrier, shape=list(shape))
            # 2-d arrays in C and in Fortran memory order (transposed inputs): positions must be preserved
            for n in (3, 64, 70):
                for carrier in (('objint', 'i64') if n >= 64 else ('i64', 'f64')):
                    for fo in (False, True):
                        yield dict(signed=signed, n_word=n, carrier=carrier, shape=[2, 2], forder=fo)
                    yield dict(signed=signed, n_word=n, carrier=carrier, shape=[2, 3], forder=True)

    def inputs(self, cfg, D):
        n = nelem(cfg['shape'])
        if cfg['carrier'] == 'objint':
            xs = [D.int('x%d' % i) for i in range(n)]            # unbounded Python ints
            return {'x': xs}
        if cfg['carrier'] == 'i64':
            return {'x': [D.int('x%d' % i, -2**63, 2**63 - 1) for i in range(n)]}
        # integral doubles within the exactly-representable range (what _round hands over)
        return {'x': [D.int('x%d' % i, -2**53, 2**53) for i in range(n)]}

    def run(self, cfg, P, inp):
        dt = {'objint': object, 'i64': 'int64', 'f64': 'float64'}[cfg['carrier']]
        x = P.arr(inp['x'], dtype=dt, shape=tuple(cfg['shape']))
        if cfg.get('forder'):
            x = f_ordered(x)
        r = P.utils.wrap(x, cfg['signed'], cfg['n_word'])
        return {'r': r, 'dtype_is_object': r.dtype == object}

    def post(self, cfg, inp, obs):
        if obs['exc']:
            return {}
        n_word, signed = cfg['n_word'], cfg['signed']
        rs = elems(obs['r'])
        out = {'shape': list(obs['r'].shape) == cfg['shape'],
               'dtype': obs['dtype_is_object'] == (n_word >= 64)}
        for i, (x, r) in enumerate(zip(inp['x'], rs)):
            x, r = M(x), M(r)
            out['in_range[%d]' % i] = in_range(r, signed, n_word)
            out['congruent[%d]' % i] = eq(mod(r - x, 1 << n_word), 0)
            out['eq_OVF[%d]' % i] = eq(r, OVF(x, signed, n_word, 'wrap'))
        return out

    def stubs(self, P):
        def wrap(x, signed, n_word):
            from contracts.l2_core import core_assert
            a = P.np.asarray(x)
            if n_word < 64:
                # the int64 branch casts with astype(int): elements must fit int64
                core_assert(unM(And(*[And(M(int_value(e)) >= -2**63, M(int_value(e)) < 2**63) for e in elems(a)])), 'utils.wrap.pre: |x| < 2^63 on the int64 branch')
            el = []
            for e in elems(a):
                iv = int_value(e)
                el.append(unM(OVF(M(iv), signed, n_word, 'wrap')))
            dt = object if n_word >= 64 else 'int64'
            return P.arr(el, dtype=dt, shape=a.shape)
        return {(P.utils, 'wrap'): wrap}


@contract
class Clip(Contract):
    """utils.clip(x, lo, hi) (np.vectorize'd python function): elementwise clamp; output dtype taken
    from the first element's result (int64 when that element was clamped, else float64)."""
    name = 'utils:clip'
    layer = 1
    props = {'*': ['C01'], 'clamp': ['C01', 'C02']}

    def configs(self, tier):
        for lo, hi in ((-128, 127), (0, 255), (-1, 0), (0, 1), (-2**51, 2**51 - 1), (0, 2**52 - 1)):
            for carrier in ('f64', 'i64', 'f64huge'):
                for shape in ((), (1,), (2,), (3,)) if tier == 'thorough' else ((), (2,)):
                    yield dict(lo=lo, hi=hi, carrier=carrier, shape=list(shape))

    def inputs(self, cfg, D):
        n = nelem(cfg['shape'])
        if cfg['carrier'] == 'i64':
            return {'x': [D.int('x%d' % i, -2**63, 2**63 - 1) for i in range(n)]}
        if cfg['carrier'] == 'f64huge':
            return {'x': [D.dyadic('x%d' % i, -900) for i in range(n)]}           # integral doubles of any magnitude
        return {'x': [D.int('x%d' % i, -2**53, 2**53) for i in range(n)]}      # integral doubles

    def run(self, cfg, P, inp):
        dt = {'i64': 'int64', 'f64': 'float64', 'f64huge': 'float64'}[cfg['carrier']]
        x = P.arr(inp['x'], dtype=dt, shape=tuple(cfg['shape']))
        r = P.utils.clip(x, cfg['lo'], cfg['hi'])
        return {'r': r}

    def post(self, cfg, inp, obs):
        if obs['exc']:
            return {}
        lo, hi = cfg['lo'], cfg['hi']
        out = {'shape': list(obs['r'].shape) == cfg['shape']}
        for i, (x, r) in enumerate(zip(inp['x'], elems(obs['r']))):
            x, r = M(x), M(r)
            out['clamp[%d]' % i] = eq(r, ite(x > hi, hi, ite(x < lo, lo, x)))
        return out

    def stubs(self, P):
        def clip(x, val_min, val_max):
            from contracts.l2_core import core_assert
            core_assert(isinstance(val_min, int) and isinstance(val_max, int), 'utils.clip stub: integer bounds (format range)')
            a = P.np.asarray(x)
            xs = elems(a)
            el = [unM(ite(M(e) > val_max, val_max, ite(M(e) < val_min, val_min, M(e)))) for e in xs]
            # output dtype comes from the first element's result: the python int bound when it was clamped
            dt = a.dtype
            if a.dtype.kind in 'iu':
                dt = P.np.dtype('int64')          # python ints come back from the vectorized function
            if a.dtype.kind == 'f':
                x0 = xs[0]
                if not (x0 < val_max) or not (x0 > val_min):
                    dt = P.np.dtype('int64')
            r = P.arr(el, dtype=object, shape=a.shape).astype(dt)      # what asanyarray(results, dtype=otype) does
            return r
        return {(P.utils, 'clip'): clip}
