#!/usr/bin/env python3
"""tools/funcreport.py -- union of coverage.repo_functions_executed_symbolically over evidence/*.json (T7 entry records):
which real functions of /repo/fxpmath/{utils,objects,functions}.py ran on symbolic data under at least one contract, per
property, and which never did.  Diagnostic (run with .venv/bin/python after the checks)."""
import ast, glob, json, os
HERE = os.path.dirname(os.path.dirname(os.path.abspath(__file__)))
repo = os.environ.get('FXPV_REPO', '/repo')
allf = set()
for m in ('utils', 'objects', 'functions'):
    tree = ast.parse(open(os.path.join(repo, 'fxpmath', m + '.py')).read())
    def walk(node, stack):
        for ch in ast.iter_child_nodes(node):
            if isinstance(ch, ast.ClassDef):
                walk(ch, stack + [ch.name])
            elif isinstance(ch, ast.FunctionDef):
                allf.add('%s:%s' % (m, '.'.join(stack + [ch.name])))
                walk(ch, stack + [ch.name])
            else:
                walk(ch, stack)
    walk(tree, [])
seen = {}
for fn in sorted(glob.glob(os.path.join(HERE, 'evidence', 'C*.json'))):
    e = json.load(open(fn))
    for k in (e.get('coverage') or {}).get('repo_functions_executed_symbolically', {}):
        seen.setdefault(k, []).append(e['property_id'])
print('%d functions defined, %d executed on symbolic data under contract' % (len(allf), len(set(seen) & allf)))
print('never executed symbolically:')
for k in sorted(allf - set(seen)):
    print('  ', k)
if '--all' in __import__('sys').argv:
    for k in sorted(seen):
        print(k, ','.join(seen[k]))
