"""Helpers shared by contract files: element access on proxy / real arrays, conversion between the
mathematical world (specs) and the code world (stubs), Fxp state factory and observation."""
from fractions import Fraction
import numpy as _np
import z3
from fxpv import core
from fxpv.core import SNum, SBool, MTerm, MBool
from fxpv.arr import SBase, SArr, SGen
from fxpv import arr as A
from specs.core import M, B, range_of


def nelem(shape):
    n = 1
    for s in shape:
        n *= s
    return n


def elems(a):
    """flat list of element values of an array / numpy scalar / python scalar (proxy or real)"""
    if isinstance(a, SBase):
        return a.elems
    if isinstance(a, _np.ndarray):
        if a.dtype.kind == 'O':
            # numpy stores a 0-d array assigned into an object array as the 0-d array itself: unwrap
            return [e.item() if isinstance(e, _np.ndarray) and e.ndim == 0 else e for e in a.ravel()]
        return a.ravel().tolist()
    if isinstance(a, _np.generic):
        return [a.item()]
    if isinstance(a, (list, tuple)):
        out = []
        for v in a:
            out.extend(elems(v))
        return out
    return [a]


def shape_of(a):
    if isinstance(a, (SBase, _np.ndarray, _np.generic)):
        return tuple(a.shape)
    if isinstance(a, (list, tuple)):
        return tuple(_np.shape(_np.empty(_np.shape([[0] * 0] if False else _shape_list(a)))))
    return ()


def _shape_list(a):
    s = []
    while isinstance(a, (list, tuple)):
        s.append(len(a))
        if not a:
            break
        a = a[0]
    return tuple(s)


def dtype_kind(a):
    if isinstance(a, (SBase, _np.ndarray, _np.generic)):
        return a.dtype.kind
    return None


def int_value(e):
    """the integer an integral-valued element denotes (for specs): floats with integer witness -> int"""
    if isinstance(e, SNum) and not e.isint and e.dy is not None and e.dy[1] <= 0:
        return SNum(z3.simplify(e.dy[0] * (1 << -e.dy[1])))
    if isinstance(e, float) and e == int(e):
        return int(e)
    return e


def unM(v):
    """mathematical value -> code-world value (python int / float, or SNum)"""
    if isinstance(v, MTerm):
        t = z3.simplify(v.t)
        if z3.is_int(t):
            if z3.is_int_value(t):
                return t.as_long()
            return SNum(t)
        if z3.is_rational_value(t):
            return float(Fraction(t.numerator_as_long(), t.denominator_as_long()))
        return SNum(t)
    if isinstance(v, MBool):
        t = z3.simplify(v.t)
        if z3.is_true(t): return True
        if z3.is_false(t): return False
        return SBool(t)
    if isinstance(v, Fraction):
        return int(v) if v.denominator == 1 else float(v)
    return v


def as_float(v):
    """code-world integer value -> the double with the same value (exactness is the caller's claim)"""
    if isinstance(v, SNum):
        if v.isint:
            return SNum.float_of_intterm(v.t, 0)
        return v
    if isinstance(v, bool):
        return float(v)
    if isinstance(v, int):
        return float(v)
    return v


def as_kind(v, dtype):
    k = _np.dtype(dtype).kind if dtype is not object else 'O'
    if k == 'f':
        return as_float(v)
    return v


# ---- formats -----------------------------------------------------------------------------------------
def fmt_str(signed, n_word, n_frac):
    return 'fxp-%s%d/%d' % ('s' if signed else 'u', n_word, n_frac)


def core_formats(tier, small=False):
    """(signed, n_word, n_frac) grid G_Q / G_T of DESIGN section 5"""
    out = []
    if tier == 'quick':
        words = [1, 2, 3, 8, 31, 32, 52]
    else:
        words = list(range(1, 53))
    for signed in (True, False):
        for n in words:
            if tier == 'quick':
                fr = sorted({-8, -1, 0, 1, n // 2, n - 1, n, n + 8})
            else:
                fr = list(range(-8, n + 9))
            for f in fr:
                out.append((signed, n, f))
    return out


# ---- Fxp state factory (arbitrary well-formed pre-state, built WITHOUT running __init__) --------------
class RecCallback:
    """ghost callback log: records which notifications were delivered, in order"""
    def __init__(self):
        self.log = []
    def on_status_overflow(self, x): self.log.append('overflow')
    def on_status_underflow(self, x): self.log.append('underflow')
    def on_status_inaccuracy(self, x): self.log.append('inaccuracy')
    def on_value_change(self, x): self.log.append('value_change')
    def __deepcopy__(self, memo):
        return self


def store_dtype(signed, n_word, n_word_max=64):
    if n_word >= n_word_max:
        return object
    return 'int64' if signed else 'uint64'


def float_of_code(c, n_frac):
    """the double code * 2^-n_frac (code-world value)"""
    if isinstance(c, SNum):
        return SNum.float_of_intterm(c.t, n_frac)
    return float(Fraction(c) * core.pow2(-n_frac))


def f_ordered(a):
    """the same logical 2-d array in Fortran (column-major) memory order"""
    return a.T.copy().T


def derived_fxp(P, how, signed, n_word, n_frac, codes, shape=(), **kw):
    """An object with the given logical codes / shape that was DERIVED from another object by a real library operation
    (its cached attributes -- real, imag -- are then whatever that operation leaves behind, its memory layout too):
      'T'        2-d: the transpose of the transposed base (a shallow copy with a column-major view of the codes)
      'rev'      1-d: base[::-1] of the reversed base (a negative-stride view; __getitem__ builds the element object)
      'item'     0-d: element 1 of a two-element base
      'flatten'  1-d: flatten() of a (1, n) base
      'copy'     any: copy() (shallow: shares status / config with the base)"""
    codes = list(codes); shape = tuple(shape)
    if how == 'T':
        r, c = shape
        base = make_fxp(P, signed, n_word, n_frac, codes=[codes[i * c + j] for j in range(c) for i in range(r)], shape=(c, r), **kw)
        return base.T
    if how == 'rev':
        return make_fxp(P, signed, n_word, n_frac, codes=codes[::-1], shape=shape, **kw)[::-1]
    if how == 'item':
        return make_fxp(P, signed, n_word, n_frac, codes=[codes[0], codes[0]], shape=(2,), **kw)[1]
    if how == 'flatten':
        return make_fxp(P, signed, n_word, n_frac, codes=codes, shape=(1, len(codes)), **kw).flatten()
    if how == 'copy':
        return make_fxp(P, signed, n_word, n_frac, codes=codes, shape=shape, **kw).copy()
    raise ValueError(how)


def make_fxp(P, signed, n_word, n_frac, codes=None, shape=(), cfg=None, status=None, vdtype=None,
             scale=1, bias=0, callbacks=None, forder=False):
    """An Fxp whose attributes satisfy the representation invariant `wf`, with the given codes."""
    Fxp = P.Fxp
    x = Fxp.__new__(Fxp)
    x._dtype = fmt_str(signed, n_word, n_frac)
    x.vdtype = vdtype
    if codes is None:
        x.val = None; x.real = None; x.imag = None
    else:
        x.val = P.arr(list(codes), dtype=store_dtype(signed, n_word), shape=tuple(shape))
        fl = [float_of_code(c, n_frac) for c in codes]
        wide = store_dtype(signed, n_word) is object
        if tuple(shape) == ():
            if wide:
                x.real = fl[0]            # 0-d object arithmetic unwraps to a python float
            else:
                x.real = A.SGen([fl[0]], _np.zeros((), dtype=int), A.F64) if P.symbolic else _np.float64(fl[0])
        else:
            x.real = P.arr(fl, dtype=object if wide else 'float64', shape=tuple(shape))
        if forder and len(tuple(shape)) == 2:
            x.val = f_ordered(x.val); x.real = f_ordered(x.real)
        if scale != 1 or bias != 0:
            x.real = x.real * scale + bias
        x.imag = 0
    x.scale = scale
    x.bias = bias
    x.scaled = bool(scale != 1 or bias != 0)
    x.signed = signed
    x.n_word = n_word
    x.n_frac = n_frac
    x.n_int = n_word - n_frac - (1 if signed else 0)
    lo, hi = range_of(signed, n_word)
    x.upper = hi / 2.0 ** n_frac
    x.lower = lo / 2.0 ** n_frac
    x.precision = 1 / 2.0 ** n_frac
    if x.scaled:
        x.upper = scale * x.upper + bias
        x.lower = scale * x.lower + bias
        x.precision = scale * x.precision
    st = {'overflow': False, 'underflow': False, 'inaccuracy': False, 'extended_prec': n_word >= 64}
    if status:
        st.update(status)
    x.status = st
    x.callbacks = callbacks if callbacks is not None else []
    x.config = P.Config(**(cfg or {}))
    return x


def obs_fxp(x, with_real=False):
    o = {'signed': x.signed, 'n_word': x.n_word, 'n_frac': x.n_frac, 'n_int': x.n_int, 'val': x.val,
         'dtype': x._dtype, 'vdtype': x.vdtype, 'status': dict(x.status), 'upper': x.upper, 'lower': x.lower,
         'precision': x.precision, 'scaled': x.scaled, 'scale': x.scale, 'bias': x.bias, 'imag': x.imag,
         'rounding': x.config.rounding, 'overflow': x.config.overflow}
    if with_real:
        o['real'] = x.real
    return o


def sym_status(D, prefix='st'):
    return {'overflow': D.bool(prefix + '_ovf'), 'underflow': D.bool(prefix + '_unf'), 'inaccuracy': D.bool(prefix + '_inacc')}


def codes_in(D, name, n, signed, n_word):
    lo, hi = range_of(signed, n_word)
    return [D.int('%s%d' % (name, i), lo, hi) for i in range(n)]


def assume_no_int64_uint64_mix(D, xs):
    """Documented out-of-domain region (DESIGN section 6): NumPy re-infers the dtype of a list of Python ints;
    values in [2^63, 2^64) together with values in [-2^63, 2^63) become float64 (int64+uint64 promotion)."""
    from specs.core import And, Or, Not
    if len(xs) < 2:
        return
    big = Or(*[And(M(x) >= 2**63, M(x) < 2**64) for x in xs])
    small = Or(*[And(M(x) >= -2**63, M(x) < 2**63) for x in xs])
    D.assume(Not(And(big, small)))


def shares_buffer(a, b):
    """do two value arrays share their buffer? (proxy: same store list; real: numpy.shares_memory)"""
    if isinstance(a, SBase) and isinstance(b, SBase):
        return a.store is b.store
    if isinstance(a, _np.ndarray) and isinstance(b, _np.ndarray):
        return bool(_np.shares_memory(a, b))
    return a is b


def same_elems(xs, ys):
    """element lists identical (proxy terms: same object; concrete numbers: equal)"""
    if len(xs) != len(ys):
        return False
    for a, b in zip(xs, ys):
        if a is b:
            continue
        if isinstance(a, (SNum, SBool)) or isinstance(b, (SNum, SBool)):
            return False
        if a != b:
            return False
    return True


def same_status(a, b):
    if set(a) != set(b):
        return False
    return all(a[k] is b[k] or (not isinstance(a[k], SBool) and not isinstance(b[k], SBool) and a[k] == b[k]) for k in a)


def as_real(e):
    """kind-agnostic numeric observation (an int 3 and a float 3.0 are the same observation)"""
    if isinstance(e, SNum):
        return SNum(z3.ToReal(e.t)) if e.isint else SNum(e.t)
    if isinstance(e, SBool):
        return SNum(z3.ToReal(core.zint(e)))
    if isinstance(e, (bool, int, float)):
        return Fraction(e)
    if isinstance(e, (_np.integer, _np.floating, _np.bool_)):
        return Fraction(e.item())
    return e
