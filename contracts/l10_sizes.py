"""Size inference (C06): Fxp(val) with word and/or fraction length left unspecified
   (_init_size, set_best_sizes with its two searches unrolled completely)."""
from fractions import Fraction
from fxpv.harness import Contract, contract
from specs.core import *
from contracts.common import *
from contracts.l3_fxp import LOWER


def P_int(vals, i, signed):
    """every value fits an integer part of i bits: -2^i <= v < 2^i (signed) / 0 <= v < 2^i (unsigned)"""
    b = 1 << i
    return And(*[And(v >= (-b if signed else 0), v < b) for v in vals])


@contract
class BestSizes(Contract):
    """When word and/or fraction length are left unspecified the inferred format represents every supplied
    dyadic value exactly with no flag, with the fewest fraction bits that make all values exact and then the
    fewest word bits (non-negative integer length, plus sign bit); given n_word only, the fraction is the
    largest that leaves room for the integer part (capped at the exact one); given n_frac only the word is
    minimal; n_int with one other size fixes the third arithmetically."""
    name = 'objects:Fxp._init_size/set_best_sizes'
    layer = 4
    uses = LOWER
    props = {'*': ['C06'], 'meta': ['C06', 'C02']}

    def configs(self, tier):
        fs = (0, 1, 2, 7) if tier == 'quick' else (0, 1, 2, 3, 7, 12)
        bits = 8 if tier == 'quick' else 11      # (thorough with 16 bits / f = 20 took more than 100 minutes on 16 cores: trimmed)
        for signed in (None, True, False):
            for f in fs:
                for shape in ([], [2]) if tier == 'quick' else ([], [1], [2], [3]):
                    for case in ('free', 'frac_given', 'word_given'):
                        if len(shape) and shape[0] > 1 and f > 2:
                            continue
                        yield dict(signed=signed, f=f, shape=shape, case=case, bits=bits if not shape or shape[0] == 1 else min(bits, 6))
        for signed in (None, True, False):
            for case in ('int_frac_given', 'int_word_given'):
                yield dict(signed=signed, f=3, shape=[], case=case, bits=6)
        # Python containers mixing int and float elements
        for signed in (None, True, False):
            for car in ('list', 'tuple', 'nestedtuple'):
                for case in ('mixed_free', 'mixed_word_given'):
                    yield dict(signed=signed, f=2, shape=[2], case=case, bits=5, carrier=car)
        # a NEGATIVE fraction length given (word inferred)
        for signed in (None, True, False):
            for shape in ([], [2]):
                for gf in (-2, -5):
                    yield dict(signed=signed, f=0, shape=shape, case='frac_given_neg', bits=8 if not shape else 6, given_frac=gf)
        # the same reconciliation through like= / resize() with a reference of the OPPOSITE signedness
        for signed in (True, False):
            for case in ('like_int_frac', 'like_int_word', 'resize_int_frac', 'resize_int_word'):
                yield dict(signed=signed, f=3, shape=[], case=case, bits=6)
        # integer values in narrow / unsigned / low-precision carriers: sizing must not be done in the carrier's arithmetic
        for car in ('arr:int8', 'np:int8', 'arr:uint8', 'np:uint8', 'arr:int16', 'np:uint16', 'arr:int32', 'arr:uint32', 'np:int64', 'arr:uint64', 'pyint',
                    'np:float16', 'arr:float16', 'np:float32'):      # (half / single precision carriers hold integer values here: exact, but scaling in their own type overflows)
            for gf in (None, 1, 4, 10, 28):
                if tier == 'quick' and gf in (1, 10) and car not in ('arr:int8', 'np:uint8', 'arr:int16'):
                    continue
                yield dict(signed=None if 'uint' not in car else (None, False)[gf == 4], f=0, shape=[1] if car.startswith('arr:') else [], bits=8,
                           case='carrier_free' if gf is None else 'carrier_frac_given', carrier=car, given_frac=gf)
        # integer-typed values (Python int, NumPy integer scalar / array) with n_word given, or n_int with one other size:
        # the fraction length still follows the rules (a narrow word pushes it below zero; n_int fixes it arithmetically)
        for signed in (None, True, False):
            for car in ('pyint', 'np:int64', 'arr:int64', 'arr:uint8'):
                for case in ('carrier_word_given', 'carrier_int_word', 'carrier_int_frac'):
                    yield dict(signed=signed, f=0, shape=[1] if car.startswith('arr:') else [], bits=8, case=case, carrier=car, given_frac=None)
        # raw integer codes with only n_frac given, by every container
        for signed in (None, True, False):
            for car in ('list', 'tuple', 'arr', 'pyint'):
                for gf in (2, 0, 5):
                    yield dict(signed=signed, f=0, shape=[2] if car != 'pyint' else [], case='raw_frac_given', bits=6, carrier=car, given_frac=gf)

    def inputs(self, cfg, D):
        n = nelem(cfg['shape'])
        lim = (1 << cfg['bits']) - 1
        lo = -lim if cfg['signed'] is not False else 0
        if cfg['case'] == 'raw_frac_given':
            return {'k': [D.int('k%d' % i, lo, lim) for i in range(n)]}
        if cfg['case'].startswith('mixed_'):
            return {'k': [D.int('k0', lo, lim), D.dyadic('k1', cfg['f'], lo, lim)]}      # [python int, python float]
        if cfg['case'].startswith('carrier_'):
            car = cfg['carrier']
            clo, chi = (-128, 127) if 'int8' in car and 'uint8' not in car else (0, 255) if 'uint' in car else (-255, 255)
            if 'float' in car:
                return {'k': [D.dyadic('k%d' % i, 0, clo, chi) for i in range(n)]}      # integer-valued floats
            return {'k': [D.int('k%d' % i, clo, chi) for i in range(n)]}
        return {'k': [D.dyadic('k%d' % i, cfg['f'], lo, lim) for i in range(n)]}

    def given(self, cfg):
        f = cfg['f']
        c = cfg['case']
        if c == 'free': return {}
        if c == 'frac_given': return {'n_frac': max(f - 1, 0)}
        if c == 'word_given': return {'n_word': cfg['bits'] // 2 + 2}
        if c in ('int_frac_given', 'like_int_frac', 'resize_int_frac'): return {'n_int': 4, 'n_frac': 2}
        if c in ('int_word_given', 'like_int_word', 'resize_int_word'): return {'n_int': 4, 'n_word': 9}
        if c == 'raw_frac_given': return {'n_frac': cfg['given_frac']}
        if c in ('carrier_frac_given', 'frac_given_neg'): return {'n_frac': cfg['given_frac']}
        if c in ('carrier_free', 'mixed_free'): return {}
        if c == 'carrier_word_given': return {'n_word': 5}
        if c == 'carrier_int_word': return {'n_int': 4, 'n_word': 9}
        if c == 'carrier_int_frac': return {'n_int': 4, 'n_frac': 2}
        if c == 'mixed_word_given': return {'n_word': cfg['bits'] // 2 + 2}

    def run(self, cfg, P, inp):
        vals = inp['k']
        val = vals[0] if cfg['shape'] == [] else P.arr(vals, dtype='float64', shape=tuple(cfg['shape']))
        kw = self.given(cfg)
        case = cfg['case']
        if case.startswith('like_'):
            ref = P.Fxp(None, not cfg['signed'], 12, 3)
            x = P.Fxp(val, signed=cfg['signed'], like=ref, **kw)
        elif case.startswith('resize_'):
            x = P.Fxp(None, not cfg['signed'], 12, 3)
            x.resize(signed=cfg['signed'], **kw)
        elif case.startswith('mixed_'):
            car = {'list': lambda: [vals[0], vals[1]], 'tuple': lambda: (vals[0], vals[1]), 'nestedtuple': lambda: ((vals[0], vals[1]), (vals[1], vals[0]))}[cfg['carrier']]()
            x = P.Fxp(car, cfg['signed'], **kw)
        elif case.startswith('carrier_'):
            from contracts.l3_fxp import build_carrier
            x = P.Fxp(build_carrier(P, cfg['carrier'], list(vals), cfg['shape']), cfg['signed'], **kw)
        elif case == 'raw_frac_given':
            car = {'list': lambda: list(vals), 'tuple': lambda: tuple(vals), 'arr': lambda: P.arr(vals, dtype='int64', shape=(2,)), 'pyint': lambda: vals[0]}[cfg['carrier']]()
            x = P.Fxp(car, cfg['signed'], raw=True, **kw)
        else:
            x = P.Fxp(val, cfg['signed'], **kw)
        o = obs_fxp(x)
        o['getval'] = x.get_val()
        return o

    def post(self, cfg, inp, obs):
        if obs['exc']:
            return {}
        S, W, F = obs['signed'], obs['n_word'], obs['n_frac']
        want_signed = True if cfg['signed'] is None else cfg['signed']
        s = int(bool(S))
        out = {'signedness': S == want_signed,
               'meta': And(isinstance(W, int), isinstance(F, int), obs['n_int'] == W - F - s, obs['dtype'] == fmt_str(S, W, F)),
               'word_cap': W <= 64}
        if not (isinstance(W, int) and isinstance(F, int)):
            return out
        vs = [M(v) for v in inp['k']]
        if cfg['case'] == 'raw_frac_given':
            vs = [scale2(v, -cfg['given_frac']) for v in vs]        # raw codes: the values are code * 2^-n_frac
        codes = [M(c) for c in elems(obs['val'])]
        lo, hi = range_of(S, W)
        st = obs['status']
        exact = And(*[eq(scale2(c, -F), v) for c, v in zip(codes, vs)])
        exact_at = lambda FF: And(*[is_int(scale2(v, FF)) for v in vs])
        n_int = W - F - s
        case = cfg['case']
        gv = self.given(cfg)
        if case.startswith('carrier_'):
            out['carrier_exact'] = And(exact, Not(B(st['inaccuracy'])))      # integers are exact at every n_frac >= 0
            case = {'carrier_free': 'free', 'carrier_frac_given': 'frac_given', 'carrier_word_given': 'word_given',
                    'carrier_int_word': 'int_word_given', 'carrier_int_frac': 'int_frac_given'}[case]
            if case != 'free' and case != 'frac_given':
                out.pop('carrier_exact')       # a given word / integer length may be too small for the value
        if case == 'frac_given_neg':
            case = 'frac_given'
        if case.startswith('mixed_'):
            case = 'free' if case == 'mixed_free' else 'word_given'
            if cfg['carrier'] == 'nestedtuple':
                vs = [vs[0], vs[1], vs[1], vs[0]]
        if case == 'raw_frac_given':
            out['raw_codes_stored'] = And(*[eq(c, M(k)) for c, k in zip(codes, inp['k'])])
            case = 'frac_given'
        if case in ('free', 'frac_given'):
            out['exact'] = exact if case == 'free' else True
            out['no_flags'] = And(Not(B(st['overflow'])), Not(B(st['underflow'])), Implies(exact_at(F), Not(B(st['inaccuracy']))))
            out['non_negative_int'] = n_int >= 0
            if case == 'free':
                out['minimal_frac'] = Or(F == 0, Not(exact_at(F - 1))) if F > 0 else True
                out['frac_non_negative'] = F >= 0
            else:
                out['frac_as_given'] = F == gv['n_frac']
            # minimal word: the integer part cannot shrink.  Codes are the values truncated to F bits.
            cs = [scale2(c, -F) for c in codes]
            fits = P_int(cs, n_int, S)
            out['int_part_fits'] = fits
            ni_min = max(-F, 0)          # a negative fraction length already implies -F integer bits (the word cannot drop below the sign bit)
            out['minimal_word'] = Or(n_int == ni_min, Not(P_int(cs, n_int - 1, S))) if n_int > ni_min else True
        elif case == 'word_given':
            out['word_as_given'] = W == gv['n_word']
            # F == min(W - s - I*, nf*): either the exact fraction length fits, or the integer part takes what it needs
            i0 = W - s - F
            full = And(exact_at(F), Or(F == 0, Not(exact_at(F - 1))) if F > 0 else True, P_int(vs, i0, S) if i0 >= 0 else False)
            squeezed = And(Not(exact_at(F)), P_int(vs, i0, S) if i0 >= 0 else False,
                           Or(i0 == 0, Not(P_int(vs, i0 - 1, S))) if i0 > 0 else True)
            # values too large for the given word: no fraction bits are left (F may go negative); only metadata is claimed
            too_big = Not(P_int(vs, W - s, S))
            out['frac_rule'] = Or(full, squeezed, too_big)
            out['exact_when_room'] = Implies(full, And(exact, Not(B(st['inaccuracy'])), Not(B(st['overflow'])), Not(B(st['underflow']))))
        else:
            out['arithmetic'] = And(W == gv.get('n_word', gv['n_int'] + gv.get('n_frac', 0) + s),
                                    F == gv.get('n_frac', gv.get('n_word', 0) - gv['n_int'] - s), n_int == gv['n_int'])
        return out


@contract
class BestSizesCapped(Contract):
    """BOUNDED stand-in (not a proof) for the capped case of size inference: values that are not exactly
    representable within the configured maximum word (64 bits) -- non-dyadic doubles, tiny magnitudes -- get a
    word of at most 64 bits, are quantized with an error below one LSB, and the inaccuracy flag is raised iff
    the stored value differs from the input (compared exactly, as rationals)."""
    name = 'objects:Fxp.set_best_sizes[capped] (bounded)'
    layer = 4
    native_only = True
    props = {'*': ['C06']}

    VALUES = [1e-5, -1e-6, 3e-7, 0.1, 1.0 / 3.0, 0.3, 2.15, 1e-9, 123.456, -0.7, 1e-12, 2.0 ** -40, 3 * 2.0 ** -60, 2.0 ** -70, 5e-20, 1 + 2.0 ** -52, 1e5 + 0.1,
              2.0 ** 20 + 2.0 ** -20, 2.0 ** 30 + 2.0 ** -22, -(2.0 ** 10) - 2.0 ** -40]

    def configs(self, tier):
        for signed in (None, True, False):
            yield dict(signed=signed)

    def run(self, cfg, P, inp):
        from fractions import Fraction
        bad = []; cases = 0
        # an unrelated Config built from a template must leave no trace in the configured maximum / tolerance used below
        P.Config(template=P.Config(n_word_max=32, max_error=1e-3))
        vals = [v for v in self.VALUES if not (cfg['signed'] is False and v < 0)]
        inputs = [v for v in vals] + [[vals[0], vals[2]], [vals[3], 0.5]]
        for v in inputs:
            x = P.Fxp(v, cfg['signed'])
            vs = v if isinstance(v, list) else [v]
            codes = [int(c) for c in P.np.ravel(x.val)] if hasattr(P.np, 'ravel') else [int(x.val)]
            cases += 1
            lsb = Fraction(1, 2 ** x.n_frac) if x.n_frac >= 0 else Fraction(2 ** -x.n_frac)
            stored = [Fraction(c) * lsb for c in codes]
            exact = all(s == Fraction(w) for s, w in zip(stored, vs))
            def fits64(w):
                fr = Fraction(w); fbits = fr.denominator.bit_length() - 1
                ibits = 0
                while not (-(1 << ibits) <= fr < (1 << ibits)) if x.signed else not (0 <= fr < (1 << ibits)):
                    ibits += 1
                return fbits + ibits + (1 if x.signed else 0) <= 64
            ok = {'word_cap': x.n_word <= 64,
                  'exact_when_it_fits': exact or not all(fits64(w) for w in vs),
                  'error_below_lsb': all(abs(s - Fraction(w)) < lsb for s, w in zip(stored, vs)),
                  'inaccuracy_iff_inexact': bool(x.status['inaccuracy']) == (not exact),
                  'no_overflow': not x.status['overflow'] and not x.status['underflow']}
            for k, good in ok.items():
                if not good and len(bad) < 6:
                    bad.append([k, repr(v), x.dtype, codes, dict(x.status)])
        return {'bad': bad, 'cases': cases}

    def post(self, cfg, inp, obs):
        if obs['exc']:
            return {}
        failed = {b[0] for b in obs['bad']}
        out = {k: (k not in failed) for k in ('word_cap', 'exact_when_it_fits', 'error_below_lsb', 'inaccuracy_iff_inexact', 'no_overflow')}
        out['nonvacuous'] = obs['cases'] >= 10
        return out
