"""fxpv.pyc -- shims for the builtins that would otherwise concretise or reject proxies (T2, T4, T5).
Each shim forwards to the real builtin when no argument is a proxy."""
import builtins
import numpy as _np
import z3
from . import core
from .core import SNum, SBool, Undecided, CheckerError, mkbool, kind_of, to_float, zint
from . import arr as A
from .arr import SBase, SArr, SGen

_real_isinstance = builtins.isinstance
_real_type = builtins.type

WHILE_BOUND = 70


def _strs():
    from . import strs
    return strs


def _resolve_num_kind(x):
    """Fork on the merged kind of a 'num' SNum; returns 'int' or 'float'."""
    if bool(SBool(x.kc)):
        return 'int'
    return 'float'


def int_(*args, **kw):
    if not args:
        return 0
    x = args[0]
    if _real_isinstance(x, str) and _strs().is_sstr(x):
        return _strs().int_of(x, *args[1:], **kw)
    if _real_isinstance(x, SNum):
        k = kind_of(x)
        if k == 'int':
            return x
        r = A.trunc_term(SNum(x.t, x.dy))
        return r
    if _real_isinstance(x, SBool):
        return SNum(zint(x))
    if _real_isinstance(x, SBase):
        if x.size != 1:
            raise TypeError('only length-1 arrays can be converted to Python scalars')
        v = x.elems[0]
        if _real_isinstance(v, (SNum, SBool)):
            return int_(v)
        if _real_isinstance(v, str):
            return int_(v, *args[1:], **kw)        # a NumPy str_ element: int(np.str_('0b101'), 2)
        if _real_isinstance(v, float) and (v != v or v in (float('inf'), float('-inf'))):
            return int(v)   # raises like CPython
        return int(v)
    return builtins.int(*args, **kw)


def float_(*args, **kw):
    if not args:
        return 0.0
    x = args[0]
    if _real_isinstance(x, str) and _strs().is_sstr(x):
        return _strs().float_of(x)
    if _real_isinstance(x, SNum):
        k = kind_of(x)
        if k == 'int':
            return to_float(x, 'float()')
        return SNum(x.t, x.dy)
    if _real_isinstance(x, SBool):
        return to_float(SNum(zint(x)))
    if _real_isinstance(x, SBase):
        if x.size != 1:
            raise TypeError('only length-1 arrays can be converted to Python scalars')
        v = x.elems[0]
        if _real_isinstance(v, (SNum, SBool)):
            return float_(v)
        return float(v)
    return builtins.float(*args, **kw)


def bool_(*args):
    if not args:
        return False
    x = args[0]
    if _real_isinstance(x, SBool):
        return x
    if _real_isinstance(x, SNum):
        return x != 0
    if _real_isinstance(x, SBase):
        if x.size != 1:
            raise ValueError('The truth value of an array with more than one element is ambiguous.')
        v = x.elems[0]
        return bool_(v)
    return builtins.bool(x)


def str_(*args, **kw):
    if args and _real_isinstance(args[0], (SNum, SBool)):
        raise Undecided('str() of a symbolic value')
    if args and _real_isinstance(args[0], SBase) and args[0].symbolic:
        raise Undecided('str() of a symbolic array')
    return builtins.str(*args, **kw)


def _type_matches(x, t):
    """isinstance(x, t) for proxy x and a single real/proxy class t."""
    if t is object:
        return True
    if _real_isinstance(x, SBool):
        return t in (bool, int)
    if _real_isinstance(x, SNum):
        k = kind_of(x)
        if k == 'num':
            k = _resolve_num_kind(x)
        if k == 'int':
            return t is int
        return t is float
    if _real_isinstance(x, SGen):
        if t is SGen or t is _np.generic:
            return True
        if _real_isinstance(t, type) and issubclass(t, _np.generic):
            return issubclass(x.dtype.type, t)
        # np.float64 is a subclass of python float; np.int64 is not a subclass of int
        if t is float:
            return x.dtype == A.F64
        return False
    if _real_isinstance(x, SArr):
        return t is SArr or t is _np.ndarray or t is SBase
    return _real_isinstance(x, t)


def isinstance_(x, types):
    if not _real_isinstance(x, (SNum, SBool, SBase)):
        return _real_isinstance(x, types)
    if not _real_isinstance(types, tuple):
        types = (types,)
    flat = []
    def fl(ts):
        for t in ts:
            if _real_isinstance(t, tuple):
                fl(t)
            else:
                flat.append(t)
    fl(types)
    return any(_type_matches(x, t) for t in flat)


def type_(*args):
    if len(args) != 1:
        return _real_type(*args)
    x = args[0]
    if _real_isinstance(x, SBool):
        return bool
    if _real_isinstance(x, SNum):
        k = kind_of(x)
        if k == 'num':
            k = _resolve_num_kind(x)
        return int if k == 'int' else float
    if _real_isinstance(x, SGen):
        return x.dtype.type
    if _real_isinstance(x, SArr):
        return SArr
    if _real_isinstance(x, str) and _strs().is_sstr(x):
        return str
    return _real_type(x)


def _minmax(args, kw, want_max):
    if kw:
        if any(core.is_sym(a) for a in args):
            raise Undecided('min/max with key/default on symbolic values')
        return (builtins.max if want_max else builtins.min)(*args, **kw)
    if len(args) == 1:
        items = list(args[0])
    else:
        items = list(args)
    if not items:
        return (builtins.max if want_max else builtins.min)(items)
    def unwrap(v):
        if _real_isinstance(v, SGen):
            return v
        return v
    if not any(_real_isinstance(v, (SNum, SBool)) or (_real_isinstance(v, SBase) and v.symbolic) for v in items):
        if any(_real_isinstance(v, SBase) for v in items):
            # concrete proxies: compare through their operators
            r = items[0]
            for v in items[1:]:
                c = (v > r) if want_max else (v < r)
                if bool(c):
                    r = v
            return r
        return (builtins.max if want_max else builtins.min)(items)
    # Python semantics: the first extreme element wins -> result = later one only if strictly better
    r = items[0]
    for v in items[1:]:
        rv, vv = r, v
        gen = None
        if _real_isinstance(rv, SBase):
            if rv.size != 1: raise ValueError('ambiguous truth value')
            gen = rv; rv = rv.elems[0]
        if _real_isinstance(vv, SBase):
            if vv.size != 1: raise ValueError('ambiguous truth value')
            gen = vv; vv = vv.elems[0]
        if gen is not None:
            raise Undecided('python min/max over numpy scalars with symbolic values')
        c = (vv > rv) if want_max else (vv < rv)
        r = A._ite_num(c, vv, rv)
    return r


def max_(*args, **kw):
    return _minmax(args, kw, True)


def min_(*args, **kw):
    return _minmax(args, kw, False)


def len_(x):
    if _real_isinstance(x, str) and _strs().is_sstr(x):
        return builtins.len(x.items)
    return builtins.len(x)


def bin_(x):
    if _real_isinstance(x, SNum):
        return _strs().bin_of(x)
    if _real_isinstance(x, SBase):
        v = x.elems[0]
        if _real_isinstance(v, SNum):
            return _strs().bin_of(v)
        return builtins.bin(v)
    return builtins.bin(x)


def hex_(x):
    if _real_isinstance(x, SNum):
        return _strs().hex_of(x)
    return builtins.hex(x)


def map_(f, *its):
    if f is builtins.int:
        f = int_
    elif f is builtins.float:
        f = float_
    elif f is builtins.bool:
        f = bool_
    elif f is builtins.str:
        f = str_
    return builtins.map(f, *its)


def set_(*args):
    if args and _real_isinstance(args[0], str) and _strs().is_sstr(args[0]):
        return _strs().set_of(args[0])
    return builtins.set(*args)


def print_(*args, **kw):
    core.CTX.log.append(('print', ' '.join('%s' % (a if not core.is_sym(a) else '<sym>') for a in args)))


def format_(template, *args, **kw):
    if any(_real_isinstance(a, (SNum, SBool)) or (_real_isinstance(a, str) and _strs().is_sstr(a)) for a in list(args) + list(kw.values())):
        return _strs().format_(template, args, kw)
    if any(_real_isinstance(a, SBase) and a.symbolic for a in list(args) + list(kw.values())):
        return _strs().format_(template, args, kw)
    return template.format(*args, **kw)


def fstring_(*parts):
    out = []
    for p in parts:
        if _real_isinstance(p, tuple):
            val, conv, spec = p
            if core.is_sym(val) or (_real_isinstance(val, SBase) and val.symbolic) or (_real_isinstance(val, str) and _strs().is_sstr(val)):
                out.append('<symbolic>')
                continue
            if conv == 's': val = builtins.str(val)
            elif conv == 'r': val = builtins.repr(val)
            elif conv == 'a': val = builtins.ascii(val)
            out.append(builtins.format(val, spec or ''))
        else:
            out.append(p)
    return ''.join(out)


def enter_(qualname):
    """T7: records that the real function `qualname` runs on the current (symbolic) path"""
    c = core.CTX
    if c is not None:
        c.funcs_entered.add(qualname)


def loop_tick(loop_id):
    core.CTX.tick(loop_id, WHILE_BOUND)


def ite_(c, a, b):
    """T6 if-conversion helper: value-level selection instead of a fork (same semantics as
    `if c: x = a` for side-effect-free a)."""
    if _real_isinstance(c, SBase) and c.size == 1:
        c = c.elems[0]
    if _real_isinstance(c, bool):
        return a if c else b
    if _real_isinstance(c, SBool):
        ga = a if _real_isinstance(a, SGen) else None
        gb = b if _real_isinstance(b, SGen) else None
        if ga is not None or gb is not None:
            ea = a.value if ga is not None else a
            eb = b.value if gb is not None else b
            dt = (ga or gb).dtype
            if ga is not None and gb is not None and ga.dtype != gb.dtype:
                return a if bool(c) else b
            return SGen([A._ite_num(c, ea, eb)], _np.zeros((), dtype=int), dt)
        if _real_isinstance(a, (SNum, SBool, bool, int, float)) and _real_isinstance(b, (SNum, SBool, bool, int, float)):
            return A._ite_num(c, a, b)
        return a if bool(c) else b
    return a if c else b


SHIMMED_CALLS = {'int': 'int_', 'float': 'float_', 'bool': 'bool_', 'str': 'str_', 'isinstance': 'isinstance_',
                 'type': 'type_', 'max': 'max_', 'min': 'min_', 'len': 'len_', 'bin': 'bin_', 'hex': 'hex_',
                 'map': 'map_', 'set': 'set_', 'print': 'print_'}
