"""Bitwise operators (C13) and shifts (C14)."""
from fractions import Fraction
from fxpv.harness import Contract, contract
from specs.core import *
from contracts.common import *
from contracts.l3_fxp import LOWER


def apply_bit(op, x, y):
    if op == 'and': return x & y
    if op == 'or': return x | y
    if op == 'xor': return x ^ y
    raise ValueError(op)


@contract
class Bitwise(Contract):
    """~x, x&y, x|y, x^y (y an Fxp of the same word length of either signedness, or an integer mask on either
    side) return an object of x's format whose bit pattern is the bitwise NOT/AND/OR/XOR of the n_word-bit
    two's-complement patterns; different word lengths are rejected with ValueError."""
    name = 'objects:Fxp.__invert__/__and__/__or__/__xor__'
    primary = ['C13']
    secondary_stride = 4
    layer = 5
    uses = LOWER
    allowed_exceptions = ('ValueError',)
    props = {'*': ['C13'], 'format': ['C13', 'C02'], 'in_range': ['C02'], 'operand_unchanged': ['C20'], 'separate_state': ['C20']}

    def configs(self, tier):
        words = (1, 2, 3, 6, 16, 31, 32, 33, 63) if tier == 'quick' else (1, 2, 3, 4, 5, 6, 8, 16, 31, 32, 33, 62, 63)
        wide = (64, 65, 128) if tier == 'quick' else (64, 65, 100, 128)
        for n in list(words) + list(wide):
            for sx in (True, False):
                for f in (0, n):
                    yield dict(op='invert', x=[sx, n, f], y=None, shape=[])
                    if n <= 8:
                        yield dict(op='invert', x=[sx, n, f], y=None, shape=[2])
                    for op in ('and', 'or', 'xor'):
                        for sy in (True, False):
                            yield dict(op=op, x=[sx, n, f], y=[sy, n, 0], shape=[])
                        if n >= 64 and not sx:
                            continue
                        yield dict(op=op, x=[sx, n, f], y='mask', shape=[])
                        yield dict(op=op, x=[sx, n, f], y='rmask', shape=[])
        # arrays (1-d, 2-d in C and Fortran memory order) with an integer mask / inverted: every position keeps its own word
        for n in (3, 8, 64):
            for sx in (True, False):
                for shape, fo in (([2], False), ([2, 2], False), ([2, 2], True), ([2, 3], True)):
                    if n < 64 or shape != [2, 3]:
                        yield dict(op='invert', x=[sx, n, 0], y=None, shape=shape, forder=fo)
                    if n >= 64 or shape == [2, 3]:
                        continue
                    for op in ('and', 'or', 'xor'):
                        yield dict(op=op, x=[sx, n, 0], y='mask', shape=shape, forder=fo)
        # operands the library derived itself (x.T of a transposed base, reversed view, element, shallow copy)
        for n in (3, 8):
            for sx in (True, False):
                for der, shape in (('T', [2, 2]), ('rev', [2]), ('item', []), ('copy', [2])):
                    yield dict(op='invert', x=[sx, n, 0], y=None, shape=shape, der=der)
                    yield dict(op='xor', x=[sx, n, 0], y='mask', shape=shape, der=der)
        for n in (63, 64, 65):
            for sx in (True, False):
                yield dict(op='invert', x=[sx, n, 0], y=None, shape=[2], forder=False, wide_array=True)
                if sx:
                    for op in ('and', 'xor'):
                        yield dict(op=op, x=[sx, n, 0], y='mask', shape=[2], forder=False, wide_array=True)
        for op in ('and', 'or', 'xor'):
            yield dict(op=op, x=[True, 8, 0], y=[True, 9, 0], shape=[], reject=True)
            yield dict(op=op, x=[False, 16, 3], y=[True, 8, 3], shape=[], reject=True)

    def inputs(self, cfg, D):
        s, n, f = cfg['x']
        d = {'cx': codes_in(D, 'cx', nelem(cfg['shape']), s, n)}
        if isinstance(cfg['y'], list):
            sy, ny, fy = cfg['y']
            d['cy'] = codes_in(D, 'cy', 1, sy, ny)
        elif cfg['y'] in ('mask', 'rmask'):
            d['m'] = D.int('m', 0, 2**(n + 2))
        return d

    def run(self, cfg, P, inp):
        s, n, f = cfg['x']
        if cfg.get('der'):
            x = derived_fxp(P, cfg['der'], s, n, f, inp['cx'], tuple(cfg['shape']), cfg={'overflow': 'wrap', 'rounding': 'ceil'}, vdtype=float)
        else:
            x = make_fxp(P, s, n, f, codes=inp['cx'], shape=tuple(cfg['shape']), cfg={'overflow': 'wrap', 'rounding': 'ceil'}, vdtype=float, forder=bool(cfg.get('forder')))
        b = dict(x.__dict__); v0 = list(elems(x.val))
        if cfg['op'] == 'invert':
            z = ~x
        elif isinstance(cfg['y'], list):
            sy, ny, fy = cfg['y']
            y = make_fxp(P, sy, ny, fy, codes=inp['cy'], shape=(), vdtype=float)
            z = apply_bit(cfg['op'], x, y)
        elif cfg['y'] == 'mask':
            z = apply_bit(cfg['op'], x, inp['m'])
        else:
            z = {'and': x.__rand__, 'or': x.__ror__, 'xor': x.__rxor__}[cfg['op']](inp['m'])
        o = obs_fxp(z)
        o.update(unchanged=all(x.__dict__[k] is b[k] for k in b) and same_elems(elems(x.val), v0),
                 separate=z is not x and z.config is not x.config and z.status is not x.status and not shares_buffer(z.val, x.val))
        return o

    def post(self, cfg, inp, obs):
        if cfg.get('reject'):
            return {'rejects_different_words': obs['exc'] == 'ValueError'}
        if obs['exc']:
            return {'no_exception': False}
        s, n, f = cfg['x']
        lo, hi = range_of(s, n)
        out = {'format': And(obs['signed'] == s, obs['n_word'] == n, obs['n_frac'] == f, obs['dtype'] == fmt_str(s, n, f)),
               'operand_unchanged': obs['unchanged'], 'separate_state': obs['separate'],
               'no_flags': And(Not(B(obs['status']['overflow'])), Not(B(obs['status']['underflow']))),
               'shape': list(obs['val'].shape) == cfg['shape']}
        cz = [M(c) for c in elems(obs['val'])]
        if len(cz) != len(inp['cx']):
            return out
        for i, c in enumerate(inp['cx']):
            px = pat(M(c), n)
            pz = pat(cz[i], n)
            out['in_range[%d]' % i] = And(cz[i] >= lo, cz[i] <= hi)
            if cfg['op'] == 'invert':
                out['pattern[%d]' % i] = eq(pz, (1 << n) - 1 - px)
                if s:
                    out['not_is_neg_minus_lsb[%d]' % i] = eq(cz[i], -M(c) - 1)
            else:
                if isinstance(cfg['y'], list):
                    py = pat(M(inp['cy'][0]), n)
                else:
                    py = pat(M(inp['m']), n)
                out['pattern[%d]' % i] = eq(pz, bitop(cfg['op'], px, py))
        return out


@contract
class BitwiseWide(Bitwise):
    """The bitwise contract restricted to words of 64 bits and more (scalars and arrays): C18 claims the bitwise
    operators exact at these widths."""
    name = 'objects:Fxp.__invert__/__and__/__or__/__xor__[wide]'
    primary = ['C18']
    props = {'*': ['C18']}

    def configs(self, tier):
        for c in Bitwise.configs(self, tier):
            if c['x'][1] >= 64:
                yield c


@contract
class BitwiseLaws(Contract):
    """Lemmas over the bitwise contracts, run through the real operators: ~~x == x, De Morgan."""
    name = 'lemma:C13.laws'
    layer = 6
    uses = LOWER
    props = {'*': ['C13']}

    def configs(self, tier):
        for n in (1, 2, 3, 6) if tier == 'quick' else (1, 2, 3, 4, 5, 6, 8):
            for sx in (True, False):
                for sy in (True, False):
                    yield dict(n=n, sx=sx, sy=sy)

    def inputs(self, cfg, D):
        return {'cx': codes_in(D, 'cx', 1, cfg['sx'], cfg['n']), 'cy': codes_in(D, 'cy', 1, cfg['sy'], cfg['n'])}

    def run(self, cfg, P, inp):
        x = make_fxp(P, cfg['sx'], cfg['n'], 0, codes=inp['cx'], shape=(), vdtype=float)
        y = make_fxp(P, cfg['sy'], cfg['n'], 0, codes=inp['cy'], shape=(), vdtype=float)
        yx = make_fxp(P, cfg['sx'], cfg['n'], 0, codes=[(~y).uraw() if False else 0], shape=(), vdtype=float)
        return {'inv_inv': (~~x).val, 'nand': (~(x & y)).val, 'or_of_nots': ((~x) | (~y)).val,
                'nor': (~(x | y)).val, 'and_of_nots': ((~x) & (~y)).val, 'xor_self': (x ^ x).val}

    def post(self, cfg, inp, obs):
        if obs['exc']:
            return {}
        e = lambda k: M(elems(obs[k])[0])
        return {'double_inversion': eq(e('inv_inv'), M(inp['cx'][0])),
                'de_morgan_and': eq(e('nand'), e('or_of_nots')),
                'de_morgan_or': eq(e('nor'), e('and_of_nots')),
                'xor_self_zero': eq(e('xor_self'), 0)}


# ==========================================================================================================
@contract
class Shifts(Contract):
    """expand mode: x<<n == x*2^n and x>>n == x/2^n exactly (word / fraction grow as needed); trunc / keep
    mode: format unchanged, x>>n is floor(code / 2^n), x<<n is code*2^n when representable and otherwise a
    value inside the format's range; n = 0 is the identity; the operand is never modified."""
    name = 'objects:Fxp.__lshift__/__rshift__'
    primary = ['C14']
    secondary_stride = 4
    layer = 5
    uses = LOWER
    props = {'*': ['C14'], 'format_valid': ['C14', 'C02'], 'in_range': ['C14', 'C02'], 'operand_unchanged': ['C14', 'C20'], 'separate_state': ['C20']}

    def configs(self, tier):
        words = (1, 2, 3, 6, 8) if tier == 'quick' else (1, 2, 3, 4, 5, 6, 8, 16, 32)
        for n in words:
            for s in (True, False):
                for f in sorted({0, n // 2}):
                    for mode in ('expand', 'trunc', 'keep'):
                        for d in ('l', 'r'):
                            counts = range(0, n + 4) if (tier == 'thorough' or n <= 3) else (0, 1, n - 1, n, n + 3)
                            for k in counts:
                                if n + k > 62:
                                    continue
                                yield dict(x=[s, n, f], mode=mode, dir=d, k=k, shape=[])
                                if n <= 3 and k <= 2:
                                    yield dict(x=[s, n, f], mode=mode, dir=d, k=k, shape=[2])
                                    # operands derived by the library: transposed 2-d, reversed view, element, shallow copy
                                    for der, shape in (('T', [2, 2]), ('rev', [2]), ('item', []), ('copy', [2])):
                                        if der == 'T' and (n != 2 or k > 1):
                                            continue
                                        yield dict(x=[s, n, f], mode=mode, dir=d, k=k, shape=shape, der=der)

    def inputs(self, cfg, D):
        s, n, f = cfg['x']
        return {'c': codes_in(D, 'c', nelem(cfg['shape']), s, n)}

    def run(self, cfg, P, inp):
        s, n, f = cfg['x']
        if cfg.get('der'):
            x = derived_fxp(P, cfg['der'], s, n, f, inp['c'], tuple(cfg['shape']), cfg={'shifting': cfg['mode']}, vdtype=float)
        else:
            x = make_fxp(P, s, n, f, codes=inp['c'], shape=tuple(cfg['shape']), cfg={'shifting': cfg['mode']}, vdtype=float)
        b = dict(x.__dict__); v0 = list(elems(x.val))
        z = (x << cfg['k']) if cfg['dir'] == 'l' else (x >> cfg['k'])
        o = obs_fxp(z)
        o.update(unchanged=all(x.__dict__[k] is b[k] for k in b) and same_elems(elems(x.val), v0), not_same=z is not x,
                 separate=z is not x and z.config is not x.config and z.status is not x.status and not shares_buffer(z.val, x.val)
                 and z.callbacks is not x.callbacks)
        return o

    def post(self, cfg, inp, obs):
        if obs['exc']:
            return {}
        s, n, f = cfg['x']
        k = cfg['k']
        W, F, S = obs['n_word'], obs['n_frac'], obs['signed']
        out = {'operand_unchanged': And(obs['unchanged'], obs['not_same']), 'separate_state': obs['separate'],
               'format_valid': And(S == s, isinstance(W, int), isinstance(F, int), W >= 1, obs['n_int'] == W - F - int(s), obs['dtype'] == fmt_str(s, W, F))}
        if not (isinstance(W, int) and isinstance(F, int)):
            return out
        lo, hi = range_of(s, W)
        cz = [M(c) for c in elems(obs['val'])]
        st = obs['status']
        for i, c in enumerate(inp['c']):
            c = M(c)
            out['in_range[%d]' % i] = And(cz[i] >= lo, cz[i] <= hi)
            if cfg['mode'] == 'expand':
                # value(z) == value(x) * 2^(+-k)  <=>  cz * 2^-F == c * 2^(-f +- k)
                sh = k if cfg['dir'] == 'l' else -k
                out['exact[%d]' % i] = eq(scale2(cz[i], -F), scale2(c, -f + sh))
            else:
                out['format_unchanged'] = And(W == n, F == f)
                if cfg['dir'] == 'r':
                    out['arith_shift[%d]' % i] = eq(cz[i], floor(scale2(c, -k)))
                else:
                    t = scale2(c, k)
                    out['left_when_representable[%d]' % i] = Implies(And(t >= lo, t <= hi), eq(cz[i], t))
            if k == 0:
                out['zero_is_identity[%d]' % i] = eq(scale2(cz[i], -F), scale2(c, -f))
        if cfg['mode'] == 'expand':
            out['no_flags'] = And(Not(B(st['overflow'])), Not(B(st['underflow'])))
            if cfg['dir'] == 'l':
                out['fraction_kept'] = F == f
        return out
