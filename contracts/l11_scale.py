"""Scale and bias as an exact affine wrapper around the stored code (C17)."""
from fractions import Fraction
from fxpv.harness import Contract, contract
from fxpv.core import SNum
from specs.core import *
from contracts.common import *
from contracts.l2_core import MODES
from contracts.l3_fxp import LOWER

SCALES = [Fraction(2), Fraction(1, 2), Fraction(3), Fraction(-3, 2), Fraction(3, 4), Fraction(10), Fraction(1)]
BIASES = [Fraction(0), Fraction(1), Fraction(-1, 2), Fraction(9, 4)]
G = 6      # inputs w = m / 2^G


def dy(fr):
    """(numerator, log2 denominator) of a dyadic Fraction"""
    d = fr.denominator
    assert d & (d - 1) == 0
    return fr.numerator, d.bit_length() - 1


def affine_input(P, m, s, b):
    """the double v = s*w + b for w = m / 2^G (exactly representable by construction)"""
    ks, js = dy(s); kb, jb = dy(b)
    grid = G + js + jb
    if isinstance(m, SNum):
        import z3
        iw = z3.simplify(m.t * (ks * (1 << jb)) + kb * (1 << (G + js)))
        return SNum.float_of_intterm(iw, grid)
    return float(s * Fraction(m, 1 << G) + b)


@contract
class ScaleBias(Contract):
    """For an object created with scale s and bias b: storing v stores the C01 quantization of (v-b)/s, reading
    returns s*code*2^-n_frac + b, upper / lower / precision are the unscaled ones mapped through the affine map
    (precision through s only), and flags are raised on the same conditions as for (v-b)/s."""
    name = 'objects:Fxp[scale,bias]'
    layer = 5
    uses = LOWER
    props = {'*': ['C17']}

    def configs(self, tier):
        fm = [(True, 8, 2), (False, 8, 3), (True, 16, 4), (True, 3, 0), (False, 12, -1)] if tier == 'quick' else \
             [(s, n, f) for s in (True, False) for n in (1, 3, 8, 12, 16) for f in sorted({-1, 0, n // 2, n})]
        k = 0
        for fmt in fm:
            for s in SCALES:
                for b in BIASES:
                    if s == 1 and b == 0:
                        continue
                    for route in ('ctor', 'call', 'setitem', 'getitem', 'raw_store') + (('ctor_int',) if s in (Fraction(1), Fraction(2), Fraction(1, 2)) else ()):
                        k += 1
                        modes = [MODES[k % len(MODES)]] if tier == 'quick' else MODES[::3]
                        for rule, mode in modes:
                            yield dict(fmt=list(fmt), scale=[s.numerator, s.denominator], bias=[b.numerator, b.denominator], route=route, rule=rule, mode=mode)
        for s, b in [(Fraction(3), Fraction(1)), (Fraction(1, 2), Fraction(-1, 2)), (Fraction(-3, 2), Fraction(0))]:
            for signed in (True, False):
                yield dict(fmt=None, scale=[s.numerator, s.denominator], bias=[b.numerator, b.denominator], route='infer', rule='trunc', mode='saturate', signed=signed)
        # storing through narrow / unsigned / low-precision carriers: (v-b)/s must not be computed in the carrier's own arithmetic
        k = 0
        for fmt in ([(True, 16, 4), (False, 12, 1), (True, 8, 0)] if tier == 'quick' else [(True, 16, 4), (False, 12, 1), (True, 8, 0), (True, 24, 8), (False, 8, 3)]):
            for s, b in [(Fraction(2), Fraction(1)), (Fraction(1), Fraction(5)), (Fraction(1), Fraction(-100)), (Fraction(1, 2), Fraction(1, 4)), (Fraction(2), Fraction(0)), (Fraction(1), Fraction(1, 2))]:
                for carrier in ('arr:uint8', 'np:uint8', 'arr:int8', 'np:int16', 'arr:uint16', 'arr:uint32', 'arr:int32', 'arr:uint64', 'np:uint64', 'arr:int64',
                                'arr:float16', 'np:float16', 'arr:float32', 'np:float32'):
                    k += 1
                    rule, mode = MODES[k % len(MODES)]
                    yield dict(fmt=list(fmt), scale=[s.numerator, s.denominator], bias=[b.numerator, b.denominator], route='ctor_carrier', rule=rule, mode=mode, carrier=carrier)
        # size inference from integer-typed carriers: the *transformed* value (v-b)/s is what gets sized
        for s, b in [(Fraction(2), Fraction(0)), (Fraction(2), Fraction(1)), (Fraction(1), Fraction(1, 2)), (Fraction(4), Fraction(-1, 2)), (Fraction(1, 2), Fraction(9, 4))]:
            for carrier in ('pyint', 'arr:uint8', 'arr:int64', 'np:int32'):
                yield dict(fmt=None, scale=[s.numerator, s.denominator], bias=[b.numerator, b.denominator], route='infer_int', rule='trunc', mode='saturate',
                           signed=None if carrier != 'arr:uint8' else True, carrier=carrier)

    def inputs(self, cfg, D):
        lim = 2**14 if cfg['fmt'] is not None else 2**9
        lo = -lim if (cfg['fmt'] is not None or cfg.get('signed')) else 0
        if cfg['route'] == 'ctor_int':
            return {'vi': D.int('vi', -2**12, 2**12)}       # an integer-typed input value
        if cfg['route'] == 'ctor_carrier':
            from contracts.l3_fxp import carrier_inputs
            sg, n, f = cfg['fmt']
            vc = carrier_inputs(D, cfg['carrier'], [1] if cfg['carrier'].startswith('arr:') else [], f, sg, n)
            for v in vc:
                D.assume(And(M(v) < 2**40, M(v) > -2**40))      # core domain: v - b and (v - b)/s are exact in float64
            return {'vc': vc}
        if cfg['route'] == 'raw_store':
            sg, n, f = cfg['fmt']
            return {'m': D.int('m', -2**14, 2**14), 'm2': D.int('m2', -2**14, 2**14), 'code': codes_in(D, 'code', 1, sg, n)[0]}
        if cfg['route'] == 'infer_int':
            return {'vi': D.int('vi', 0 if cfg['carrier'] == 'arr:uint8' else -2**9, 255 if cfg['carrier'] == 'arr:uint8' else 2**9)}
        return {'m': D.int('m', lo, lim), 'm2': D.int('m2', -lim, lim)}

    def run(self, cfg, P, inp):
        s = Fraction(*cfg['scale']); b = Fraction(*cfg['bias'])
        sf, bf = float(s), (float(b) if b.denominator != 1 else int(b))
        if s.denominator == 1: sf = int(s)
        route = cfg['route']
        if route == 'ctor_int':
            sg, n, f = cfg['fmt']
            x = P.Fxp(inp['vi'], sg, n, f, rounding=cfg['rule'], overflow=cfg['mode'], scale=sf, bias=bf)
            o = obs_fxp(x)
            o['getval'] = x.get_val()
            return o
        if route == 'ctor_carrier':
            from contracts.l3_fxp import build_carrier
            sg, n, f = cfg['fmt']
            car = build_carrier(P, cfg['carrier'], inp['vc'], [1] if cfg['carrier'].startswith('arr:') else [])
            x = P.Fxp(car, sg, n, f, rounding=cfg['rule'], overflow=cfg['mode'], scale=sf, bias=bf)
            o = obs_fxp(x)
            o['getval'] = x.get_val()
            return o
        if route == 'infer_int':
            from contracts.l3_fxp import build_carrier
            car = build_carrier(P, cfg['carrier'], [inp['vi']], [1] if cfg['carrier'].startswith('arr:') else [])
            x = P.Fxp(car, cfg['signed'], scale=sf, bias=bf)
            o = obs_fxp(x)
            o['getval'] = x.get_val()
            return o
        v = affine_input(P, inp['m'], s, b)
        if route == 'infer':
            x = P.Fxp(v, cfg['signed'], scale=sf, bias=bf)
        else:
            sg, n, f = cfg['fmt']
            kw = dict(rounding=cfg['rule'], overflow=cfg['mode'], scale=sf, bias=bf)
            if route == 'ctor':
                x = P.Fxp(v, sg, n, f, **kw)
            elif route == 'call':
                x = P.Fxp(affine_input(P, inp['m2'], s, b), sg, n, f, **kw)
                x.reset()
                x(v)
            elif route == 'raw_store':
                # a raw code stored into an object that carries a scale and a bias: stored as it is, read back scaled
                x = P.Fxp(affine_input(P, inp['m2'], s, b), sg, n, f, **kw)
                x.reset()
                x.set_val(inp['code'], raw=True)
            elif route == 'getitem':
                x = P.Fxp([affine_input(P, inp['m2'], s, b), v], sg, n, f, **kw)
                y = x[1]; ys = x[0:2]
                o = obs_fxp(x)
                o['getval'] = x.get_val()
                o['item'] = {'getval': y.get_val(), 'call': y(), 'slice': ys.get_val(), 'upper': y.upper, 'lower': y.lower, 'precision': y.precision,
                             'scaled': y.scaled, 'code': y.val, 'scale': y.scale, 'bias': y.bias}
                return o
            else:
                x = P.Fxp([affine_input(P, inp['m2'], s, b), affine_input(P, inp['m2'], s, b)], sg, n, f, **kw)
                x.reset()
                x[1] = v
        o = obs_fxp(x)
        o['getval'] = x.get_val()
        return o

    def post(self, cfg, inp, obs):
        if obs['exc']:
            return {}
        s = Fraction(*cfg['scale']); b = Fraction(*cfg['bias'])
        if cfg['route'] == 'ctor_carrier':
            w = (M(inp['vc'][0]) - b) * (1 / s)          # exact: s is a power of two here
        elif cfg['route'] in ('ctor_int', 'infer_int'):
            w = (M(inp['vi']) - b) * (1 / s)             # exact: s is a power of two here
        else:
            w = scale2(M(inp['m']), -G)
        S, W, F = obs['signed'], obs['n_word'], obs['n_frac']
        lo, hi = range_of(S, W)
        codes = [M(c) for c in elems(obs['val'])]
        gv = [M(g) for g in elems(obs['getval'])]
        z = codes[-1]
        out = {'scaled_flag': obs['scaled'] is True,
               'readback': And(*[eq(g, s * scale2(c, -F) + b) for g, c in zip(gv, codes)]),
               'limits': And(eq(M(obs['upper']), s * scale2(hi, -F) + b), eq(M(obs['lower']), s * scale2(lo, -F) + b),
                             eq(M(obs['precision']), s * pow2(-F)))}
        st = obs['status']
        if cfg['route'] in ('infer', 'infer_int'):
            out['infer_exact'] = And(eq(scale2(z, -F), w), Not(B(st['overflow'])), Not(B(st['underflow'])), Not(B(st['inaccuracy'])))
            out['infer_minimal_frac'] = Or(F == 0, Not(is_int(scale2(w, F - 1)))) if isinstance(F, int) and F > 0 else True
            return out
        sg, n, f = cfg['fmt']
        if cfg['route'] == 'raw_store':
            out['format'] = And(S == sg, W == n, F == f)
            out['raw_code_stored'] = eq(z, M(inp['code']))
            out['no_range_flags'] = And(Not(B(st['overflow'])), Not(B(st['underflow'])))
            return out
        R = ROUND(scale2(w, f), cfg['rule'])
        out['format'] = And(S == sg, W == n, F == f)
        out['code_eq_Q'] = eq(z, OVF(R, sg, n, cfg['mode']))
        if cfg['route'] == 'getitem':
            # the parent array was built from [w2, w]: its flags are the disjunction over both elements
            w2 = scale2(M(inp['m2']), -G)
            R2 = ROUND(scale2(w2, f), cfg['rule'])
            out['code_eq_Q[0]'] = eq(codes[0], OVF(R2, sg, n, cfg['mode']))
            out['flag_overflow'] = Iff(B(st['overflow']), Or(R > hi, R2 > hi))
            out['flag_underflow'] = Iff(B(st['underflow']), Or(R < lo, R2 < lo))
            out['flag_inaccuracy'] = Iff(B(st['inaccuracy']), Or(Not(eq(scale2(z, -f), w)), Not(eq(scale2(codes[0], -f), w2))))
        else:
            out['flag_overflow'] = Iff(B(st['overflow']), R > hi)
            out['flag_underflow'] = Iff(B(st['underflow']), R < lo)
            out['flag_inaccuracy'] = Iff(B(st['inaccuracy']), Not(eq(scale2(z, -f), w)))
        if cfg['route'] == 'getitem':
            it = obs['item']
            ci = M(elems(it['code'])[0])
            want = s * scale2(ci, -F) + b
            out['item_is_view_of_code'] = eq(ci, codes[1])
            out['item_readback'] = And(eq(M(elems(it['getval'])[0]), want), eq(M(elems(it['call'])[0]), want),
                                       *[eq(M(g), s * scale2(c, -F) + b) for g, c in zip(elems(it['slice']), codes)])
            out['item_limits'] = And(it['scaled'] is True, eq(M(it['upper']), M(obs['upper'])), eq(M(it['lower']), M(obs['lower'])),
                                     eq(M(it['precision']), M(obs['precision'])), eq(M(it['scale']), s), eq(M(it['bias']), b))
        if cfg['route'] == 'setitem':
            w2 = scale2(M(inp['m2']), -G)
            out['other_unchanged'] = eq(codes[0], Q(w2, sg, n, f, cfg['rule'], cfg['mode']))
        return out
