"""fxpv.runner -- distributes (contract, configuration) tasks over a process pool and aggregates."""
import importlib
import json
import multiprocessing as mp
import os
import sys
import time

CONTRACT_MODULES = ['contracts.l1_utils', 'contracts.l2_core', 'contracts.l3_fxp', 'contracts.l4_arith', 'contracts.l5_convert', 'contracts.l6_misc', 'contracts.l7_bits', 'contracts.l8_div', 'contracts.l9_reduce', 'contracts.l10_sizes', 'contracts.l11_scale', 'contracts.l12_dtype', 'contracts.l13_strings']


def load_contracts():
    from . import harness
    for m in CONTRACT_MODULES:
        importlib.import_module(m)
    return harness.REGISTRY


def _task(args):
    cname, cfg, concolic = args
    from . import harness
    try:
        r = harness.verify_config(cname, cfg, concolic=concolic)
    except BaseException as e:   # noqa
        import traceback
        r = {'contract': cname, 'cfg': cfg, 'paths': 0, 'obligations': [], 'undecided_paths': [],
             'concolic': 0, 'concolic_skipped': 0, 'checker_errors': ['task crashed: %s: %s\n%s' % (type(e).__name__, e, traceback.format_exc()[-2000:])],
             'native_failures': [], 'solver_s': 0.0, 'assumed': [], 'notes': [], 'exc_paths': 0, 'clauses_reached': {}, 'wall_s': 0.0}
    return r


def _init():
    load_contracts()
    from . import harness
    harness.packages()


def run_tasks(tasks, procs=None, concolic=True, progress=False):
    procs = procs or int(os.environ.get('FXPV_PROCS', '16'))
    tasks = [(c, cfg, concolic) for c, cfg in tasks]
    out = []
    if procs <= 1 or len(tasks) <= 1:
        _init()
        for t in tasks:
            out.append(_task(t))
        return out
    ctx = mp.get_context('fork')
    _init()
    with ctx.Pool(procs) as pool:
        n = 0
        for r in pool.imap_unordered(_task, tasks, chunksize=max(1, min(8, len(tasks) // (procs * 8) or 1))):
            out.append(r)
            n += 1
            if progress and n % 200 == 0:
                print('  .. %d/%d' % (n, len(tasks)), file=sys.stderr)
    return out


def summarize(results):
    s = {'configs': len(results), 'paths': 0, 'obligations': 0, 'discharged': 0, 'failed': 0, 'undecided': 0,
         'undecided_paths': 0, 'checker_errors': 0, 'native_failures': 0, 'concolic': 0, 'solver_s': 0.0, 'backend': {}}
    for r in results:
        s['paths'] += r['paths']
        s['concolic'] += r['concolic']
        s['solver_s'] += r['solver_s']
        s['undecided_paths'] += len(r['undecided_paths'])
        s['checker_errors'] += len(r['checker_errors'])
        s['native_failures'] += len(r['native_failures'])
        for o in r['obligations']:
            s['obligations'] += 1
            s[{'discharged': 'discharged', 'failed': 'failed', 'undecided': 'undecided'}[o['result']]] += 1
            s['backend'][o['backend']] = s['backend'].get(o['backend'], 0) + 1
    return s


def main(argv):
    reg = load_contracts()
    name = argv[1]
    tier = argv[2] if len(argv) > 2 else 'quick'
    limit = int(argv[3]) if len(argv) > 3 else None
    names = [n for n in reg if name in n]
    for n in names:
        cfgs = list(reg[n].configs(tier))
        if limit:
            cfgs = cfgs[:limit]
        t0 = time.time()
        res = run_tasks([(n, c) for c in cfgs], progress=True)
        s = summarize(res)
        print(n, json.dumps(s), 'wall %.1fs' % (time.time() - t0))
        shown = 0
        for r in res:
            bad = [o for o in r['obligations'] if o['result'] != 'discharged']
            if (bad or r['checker_errors'] or r['undecided_paths'] or r['native_failures']) and shown < int(os.environ.get('SHOW', '6')):
                shown += 1
                print(' cfg', json.dumps(r['cfg']), 'paths', r['paths'])
                for o in bad[:3]:
                    print('   ', o['label'], o['result'], (o.get('replay') or {}).get('inputs'), (o.get('replay') or {}).get('failed_clauses'), (o.get('replay') or {}).get('found_by'), (o.get('replay') or {}).get('why'))
                for e in r['checker_errors'][:2]:
                    print('    CHK', e[:int(os.environ.get('CHKLEN', '400'))])
                for u in r['undecided_paths'][:2]:
                    print('    UND', u)
                for nf in r['native_failures'][:1]:
                    print('    NATIVE-FAIL', nf['inputs'], nf['clauses'])


if __name__ == '__main__':
    sys.path.insert(0, os.path.dirname(os.path.dirname(os.path.abspath(__file__))))
    main(sys.argv)
