"""fxpv.strs -- SStr: a symbolic string of CONCRETE length whose characters are literals or symbolic
binary / hexadecimal digits.  It is a `str` subclass (so `isinstance(x, str)` holds inside the library) whose
real payload is a poison marker: any leak of the payload into a concrete string is detectable.

Only the methods the library uses are implemented; everything else raises Undecided (fail closed).
"""
import builtins
import numpy as _np
import z3
from . import core
from .core import SNum, SBool, Undecided, CheckerError, mkbool

POISON = '\x00\x01<symbolic-string>\x01\x00'
HEXU = '0123456789ABCDEF'
HEXL = '0123456789abcdef'


class Dig:
    """one symbolic digit character: base 2 (term in {0,1}) or base 16 (term in 0..15, upper/lower case)"""
    __slots__ = ('base', 't', 'upper', 'src')
    def __init__(self, base, t, upper=True, src=None):
        # src = (term, index): this character is digit number `index` (weight base**index) of the non-negative Int `term`
        self.base = base; self.t = t; self.upper = upper; self.src = src
    def alphabet(self):
        if self.base == 2:
            return '01'
        return HEXU if self.upper else HEXL
    def value_of_char(self, ch):
        """the digit value if `ch` can be this character, else None"""
        a = self.alphabet()
        i = a.find(ch)
        return i if i >= 0 else None
    def __repr__(self):
        return '<%s:%s>' % ('b' if self.base == 2 else 'h', self.t)


def is_sstr(x):
    return isinstance(x, SStr)


def _items_of(x):
    if isinstance(x, SStr):
        return list(x.items)
    if isinstance(x, str):
        if POISON in x:
            raise Undecided('poisoned concrete string (proxy leak)')
        return list(x)
    raise TypeError('expected str')


def mk(items):
    items = list(items)
    if all(isinstance(i, str) for i in items):
        return ''.join(items)
    return SStr(items)


class SStr(str):
    def __new__(cls, items):
        obj = str.__new__(cls, POISON)
        obj.items = tuple(items)
        return obj

    # ---- size / access ---------------------------------------------------------------------------------
    def __len__(self):
        return len(self.items)
    def __getitem__(self, i):
        if isinstance(i, slice):
            return mk(self.items[i])
        if isinstance(i, (SNum, SBool)):
            raise Undecided('symbolic string index')
        return mk([self.items[i]])
    def __iter__(self):
        for it in self.items:
            yield mk([it])
    def __str__(self):
        return self
    def __repr__(self):
        return 'SStr(%r)' % (list(self.items),)
    def __format__(self, spec):
        raise Undecided('formatting a symbolic string')
    def __hash__(self):
        raise Undecided('hash of a symbolic string')
    def __deepcopy__(self, memo):
        return self
    def __copy__(self):
        return self
    def __bool__(self):
        return len(self.items) > 0

    # ---- concatenation -----------------------------------------------------------------------------------
    def __add__(self, o):
        if not isinstance(o, str):
            return NotImplemented
        return mk(list(self.items) + _items_of(o))
    def __radd__(self, o):
        if not isinstance(o, str):
            return NotImplemented
        return mk(_items_of(o) + list(self.items))
    def __mul__(self, n):
        if not isinstance(n, int):
            raise Undecided('symbolic repetition count')
        return mk(list(self.items) * n)
    __rmul__ = __mul__

    # ---- comparison --------------------------------------------------------------------------------------
    def _eq_term(self, o):
        oi = _items_of(o)
        if len(oi) != len(self.items):
            return z3.BoolVal(False)
        conj = []
        for a, b in zip(self.items, oi):
            c = _char_eq(a, b)
            if c is False:
                return z3.BoolVal(False)
            if c is not True:
                conj.append(c)
        return z3.And(*conj) if conj else z3.BoolVal(True)
    def __eq__(self, o):
        if not isinstance(o, str):
            return False
        return mkbool(self._eq_term(o))
    def __ne__(self, o):
        if not isinstance(o, str):
            return True
        return mkbool(z3.Not(self._eq_term(o)))
    def __lt__(self, o): raise Undecided('ordering of symbolic strings')
    __le__ = __gt__ = __ge__ = __lt__

    def __contains__(self, sub):
        sub_items = _items_of(sub)
        if len(sub_items) == 0:
            return True
        n = len(sub_items)
        maybe = []
        for i in range(len(self.items) - n + 1):
            conds = [_char_eq(a, b) for a, b in zip(self.items[i:i + n], sub_items)]
            if any(c is False for c in conds):
                continue
            cs = [c for c in conds if c is not True]
            if not cs:
                return True
            maybe.append(z3.And(*cs))
        if not maybe:
            return False
        # python's `in` must return a bool: fork
        return bool(mkbool(z3.Or(*maybe)))

    def find(self, sub, *a):
        if a:
            raise Undecided('str.find with bounds')
        sub_items = _items_of(sub)
        n = len(sub_items)
        for i in range(len(self.items) - n + 1):
            conds = [_char_eq(x, y) for x, y in zip(self.items[i:i + n], sub_items)]
            if any(c is False for c in conds):
                continue
            if all(c is True for c in conds):
                return i
            if bool(mkbool(z3.And(*[c for c in conds if c is not True]))):
                return i
        return -1

    def startswith(self, p, *a):
        p = _items_of(p)
        return bool(mk(self.items[:len(p)]) == mk(p)) if len(p) <= len(self.items) else False
    def endswith(self, p, *a):
        p = _items_of(p)
        return bool(mk(self.items[len(self.items) - len(p):]) == mk(p)) if len(p) <= len(self.items) else False

    # ---- rewriting -----------------------------------------------------------------------------------------
    def replace(self, old, new, count=-1):
        if count != -1:
            raise Undecided('str.replace with count')
        old_i = _items_of(old); new_i = _items_of(new)
        n = len(old_i)
        if n == 0:
            raise Undecided('replace of empty pattern')
        out = []
        i = 0
        items = self.items
        while i < len(items):
            if i + n <= len(items):
                conds = [_char_eq(a, b) for a, b in zip(items[i:i + n], old_i)]
                if not any(c is False for c in conds):
                    cs = [c for c in conds if c is not True]
                    if not cs or bool(mkbool(z3.And(*cs))):
                        out.extend(new_i)
                        i += n
                        continue
            out.append(items[i])
            i += 1
        return mk(out)

    def _case(self, upper):
        out = []
        for it in self.items:
            if isinstance(it, str):
                out.append(it.upper() if upper else it.lower())
            elif it.base == 16:
                out.append(Dig(16, it.t, upper, it.src))
            else:
                out.append(it)
        return mk(out)
    def lower(self): return self._case(False)
    def casefold(self): return self._case(False)
    def upper(self): return self._case(True)
    def strip(self, chars=None):
        if chars is not None:
            raise Undecided('strip(chars)')
        items = list(self.items)
        while items and isinstance(items[0], str) and items[0].isspace(): items.pop(0)
        while items and isinstance(items[-1], str) and items[-1].isspace(): items.pop()
        return mk(items)
    def split(self, sep=None, maxsplit=-1):
        if sep is None or maxsplit != -1:
            raise Undecided('split without literal separator')
        sep_i = _items_of(sep)
        if len(sep_i) != 1:
            raise Undecided('multi-char split')
        parts = [[]]
        for it in self.items:
            c = _char_eq(it, sep_i[0])
            if c is True or (c is not False and bool(mkbool(c))):
                parts.append([])
            else:
                parts[-1].append(it)
        return [mk(p) for p in parts]

    # anything else on str would silently use the poison payload: block the common ones
    def _no(self, *a, **k): raise Undecided('unsupported str method on a symbolic string')
    format = join = encode = zfill = rjust = ljust = center = count = index = rfind = partition = rpartition = \
        splitlines = isdigit = isalpha = isalnum = title = capitalize = swapcase = translate = expandtabs = lstrip = rstrip = _no


def _char_eq(a, b):
    """True / False / z3 condition for two string items being the same character"""
    if isinstance(a, str) and isinstance(b, str):
        return a == b
    if isinstance(a, str):
        a, b = b, a
    if isinstance(b, str):
        v = a.value_of_char(b)
        if v is None:
            return False
        return z3.simplify(a.t == v)
    # two symbolic digits
    if a.base == b.base and (a.base == 2 or a.upper == b.upper):
        return z3.simplify(a.t == b.t)
    # mixed alphabets: equal only on the common characters 0-9 (and 0/1)
    lim = 2 if 2 in (a.base, b.base) else 10
    return z3.simplify(z3.And(a.t == b.t, a.t < lim))


# ----------------------------------------------------------------------------------------------------------
# conversions used by the shims
# ----------------------------------------------------------------------------------------------------------
def _slice_of_source(items, base):
    """If items are (literal zeros followed by) consecutive digits hi..lo of one source term p, return the Int
    term (p div base^lo) mod base^(hi-lo+1) -- pure integer arithmetic on p instead of a fresh digit sum."""
    k = 0
    while k < len(items) and isinstance(items[k], str) and items[k] == '0':
        k += 1
    digs = items[k:]
    if not digs:
        return z3.IntVal(0)
    if not all(isinstance(d, Dig) and d.base == base and d.src is not None for d in digs):
        return None
    p, hi = digs[0].src
    for j, d in enumerate(digs):
        if d.src[0] is not p and d.src[0].get_id() != p.get_id():
            return None
        if d.src[1] != hi - j:
            return None
    lo = hi - len(digs) + 1
    q = core.CTX.div(p, base ** lo) if lo > 0 else p
    full = getattr(digs[0], 'src', None)
    width = core.CTX.width_hint.get(q.get_id())
    m = base ** (hi - lo + 1)
    # when p is known to be below base^(hi+1) and lo == 0 the slice is p itself
    if lo == 0 and core.CTX.valid(z3.And(p >= 0, p < m)):
        return p
    return core.CTX.mod(q, m)


def _digits_value(items, base):
    """Int term of the numeral formed by items (all digits of `base`), MSB first"""
    fast = _slice_of_source(list(items), base)
    if fast is not None:
        return z3.simplify(fast)
    t = z3.IntVal(0)
    for it in items:
        if isinstance(it, str):
            if it == '_':
                raise Undecided('underscore in numeral')
            try:
                d = builtins.int(it, base)
            except ValueError:
                raise ValueError("invalid literal for int() with base %d" % base)
            dt = z3.IntVal(d)
        else:
            if it.base == 2 and base in (2, 16, 10, 8):
                dt = it.t
            elif it.base == 16 and base == 16:
                dt = it.t
            elif it.base == 16 and base == 2:
                # a hex digit character is a valid binary digit only when it is 0/1
                if not core.CTX.valid(it.t <= 1):
                    raise Undecided('hex digit parsed in base 2')
                dt = it.t
            else:
                raise Undecided('digit of base %d parsed in base %d' % (it.base, base))
        t = t * base + dt
    return z3.simplify(t)


def int_of(x, base=10, *a, **k):
    if a or k:
        raise Undecided('int() extra args')
    if isinstance(base, (SNum, SBool)):
        raise Undecided('symbolic base')
    items = list(x.items)
    while items and isinstance(items[0], str) and items[0].isspace(): items.pop(0)
    while items and isinstance(items[-1], str) and items[-1].isspace(): items.pop()
    sign = 1
    if items and isinstance(items[0], str) and items[0] in '+-':
        sign = -1 if items[0] == '-' else 1
        items = items[1:]
    if base in (2, 16, 8) and len(items) >= 2 and isinstance(items[0], str) and items[0] == '0' and isinstance(items[1], str) \
            and items[1].lower() == {2: 'b', 16: 'x', 8: 'o'}[base]:
        items = items[2:]
    if not items:
        raise ValueError('invalid literal for int()')
    core.CTX.assumed_used.add('python: int(str, base) is the positional value of the digit string')
    t = _digits_value(items, base)
    return SNum(z3.simplify(t * sign))


def float_of(x):
    raise Undecided('float() of a symbolic string')


def np_binary_repr(num, width=None):
    """numpy.binary_repr: for width given, the width-character two's complement image"""
    if not isinstance(num, (SNum, SBool)):
        return _np.binary_repr(num, width=width)
    if isinstance(num, SBool):
        num = SNum(core.zint(num))
    if not num.isint:
        raise TypeError("binary_repr of a float")
    if width is None:
        raise Undecided('np.binary_repr of a symbolic int without width')
    core.CTX.assumed_used.add('numpy: binary_repr(x, width) is the width-bit two\'s complement image of x (MSB first)')
    w = builtins.int(width)
    t = num.t
    ok = z3.And(t >= -(1 << (w - 1)) if w > 0 else t >= 0, t < (1 << w))
    if not core.CTX.valid(ok):
        if not core.CTX.decide(ok):
            raise ValueError('Insufficient bit width=%d provided for binwidth' % w)
    p = core.CTX.mod(t, 1 << w) if w > 0 else z3.IntVal(0)
    bits = core.CTX.bits(p, w)
    return mk([Dig(2, bits[i], True, (p, i)) for i in range(w - 1, -1, -1)])


def np_base_repr(number, base=2, padding=0):
    if not isinstance(number, (SNum, SBool)):
        return _np.base_repr(number, base=base, padding=padding)
    if base not in (2, 16) or padding:
        raise Undecided('np.base_repr of a symbolic int in base %r / with padding (variable length numeral)' % (base,))
    if isinstance(number, SBool) or not number.isint:
        raise Undecided('np.base_repr of a non-integer')
    # variable length: fork on the sign and on the number of digits (a path per length, like bin())
    core.CTX.assumed_used.add('numpy: np.base_repr(x, b) is "-" for x < 0 followed by the minimal base-b numeral of |x| ("0" for 0), upper-case digits')
    t = number.t
    neg = core.CTX.decide(t < 0)
    m = z3.simplify(-t) if neg else t
    if not neg and core.CTX.decide(m == 0):
        return '0'
    for L in range(1, 300):
        if core.CTX.decide(m < (base ** L)):
            if base == 2:
                bits = core.CTX.bits(m, L)
                items = [Dig(2, bits[i], True, (m, i)) for i in range(L - 1, -1, -1)]
            else:
                items = []
                for j in range(L - 1, -1, -1):
                    q = core.CTX.div(m, 16 ** j) if j > 0 else m
                    items.append(Dig(16, core.CTX.mod(q, 16), True, (m, j)))
            return mk((['-'] if neg else []) + items)
    raise Undecided('np.base_repr: more than 300 digits')


def bin_of(x):
    """python bin(x) for x >= 0 symbolic: forks on the bit length"""
    t = x.t
    core.CTX.assumed_used.add('python: bin(x) is "0b" + the minimal binary numeral of x')
    if core.CTX.decide(t < 0):
        raise Undecided('bin() of a negative symbolic int')
    if core.CTX.decide(t == 0):
        return '0b0'
    for L in range(1, 400):
        if core.CTX.decide(t < (1 << L)):
            bits = core.CTX.bits(t, L)
            return mk(['0', 'b'] + [Dig(2, bits[i], True, (t, i)) for i in range(L - 1, -1, -1)])
    raise Undecided('bin(): more than 400 bits')


def hex_of(x):
    raise Undecided('hex() of a symbolic int (variable length)')


def format_(template, args, kw):
    """'{0:0{1}X}'.format(x, width) with symbolic x; anything else with symbolic arguments is undecided"""
    if template == '{0:0{1}X}' and len(args) == 2 and not kw:
        x, width = args
        if isinstance(x, SNum) and isinstance(width, builtins.int):
            core.CTX.assumed_used.add("python: '{0:0{1}X}'.format(x, w) is the upper-case hex numeral of x zero-padded to w digits")
            t = x.t
            if core.CTX.decide(t < 0):
                raise Undecided('hex format of a negative symbolic int')
            w = width
            if not core.CTX.valid(t < (16 ** w)):
                if not core.CTX.decide(t < (16 ** w)):
                    raise Undecided('hex numeral longer than the requested width')
            digs = []
            for j in range(w - 1, -1, -1):
                q = core.CTX.div(t, 16 ** j) if j > 0 else t
                digs.append(Dig(16, core.CTX.mod(q, 16), True, (t, j)))
            return mk(digs)
    # error messages and the like: symbolic parts are rendered as a placeholder only if no SStr/SNum must be exact
    if any(isinstance(a, SStr) for a in list(args) + list(kw.values())):
        raise Undecided('str.format with a symbolic string argument')
    safe_args = ['<symbolic>' if isinstance(a, (SNum, SBool)) else a for a in args]
    safe_kw = {k: ('<symbolic>' if isinstance(v, (SNum, SBool)) else v) for k, v in kw.items()}
    try:
        return template.format(*safe_args, **safe_kw)
    except Exception:
        return '<message with symbolic values>'


def set_of(x):
    """set(symbolic string): the set of characters that MAY occur (over-approximation, used for validity checks)"""
    out = builtins.set()
    for it in x.items:
        if isinstance(it, str):
            out.add(it)
        else:
            out.update(it.alphabet())
    return out


def concretise(x, model):
    out = []
    for it in x.items:
        if isinstance(it, str):
            out.append(it)
        else:
            v = core.zval(model.eval(it.t, model_completion=True))
            a = it.alphabet()
            out.append(a[v] if 0 <= v < len(a) else '?')
    return ''.join(out)
