"""fxpv.check -- command line: decide one property on /repo's current working tree.

exit 0  property held on everything explored (KNOWN-FINDING lines may be printed)
exit 1  `VIOLATION property=<id> replay=<path>[ ... no-failing-input-found]`
exit 3  `CHECKER-ERROR ...` (engine / assumed-contract fault: never a verdict about the repository)
"""
import hashlib
import json
import os
import sys
import time

HERE = os.path.dirname(os.path.dirname(os.path.abspath(__file__)))
sys.path.insert(0, HERE)

from fxpv import runner, harness, loader, core   # noqa: E402


def base_clause(label):
    return label.split('[', 1)[0]


def contracts_for(reg, prop):
    out = []
    for name, c in reg.items():
        tagged = set()
        for cl, ps in c.props.items():
            if prop in ps:
                tagged.add(cl)
        if tagged:
            out.append((name, tagged))
    return out


def clause_serves(c, label, prop):
    b = base_clause(label)
    if b in ('no_exception',):
        return True
    if label.startswith('call-pre:') or label.startswith('fp-exact') or label.startswith('cast-in-range'):
        return True
    ps = c.clause_props(b)
    return prop in ps


def load_known(prop):
    fn = os.path.join(HERE, 'known_findings.json')
    if not os.path.exists(fn):
        return []
    with open(fn) as f:
        data = json.load(f)
    return [e for e in data.get('findings', []) if e.get('property') == prop]


def tree_sha():
    h = hashlib.sha256()
    for short in sorted(loader.SOURCE_SHA):
        h.update(short.encode()); h.update(loader.SOURCE_SHA[short].encode())
    return h.hexdigest()[:16]


def write_replay(prop, n, payload):
    d = os.path.join(HERE, 'replays', prop)
    os.makedirs(d, exist_ok=True)
    fn = os.path.join(d, '%03d.json' % n)
    with open(fn, 'w') as f:
        json.dump(payload, f, indent=1, default=str)
    return os.path.relpath(fn, HERE)


def do_replay(path):
    with open(path) as f:
        p = json.load(f)
    runner.load_contracts()
    r = harness.replay_inputs(p['contract'], p['config'], p.get('inputs') or {})
    print(json.dumps({'contract': p['contract'], 'config': p['config'], 'inputs': p.get('inputs'),
                      'obligation': p.get('obligation'), 'native_result': r}, indent=1, default=str))
    if r.get('replayable') and r.get('failed_clauses'):
        print('REPLAY: fails on the current tree: %s' % r['failed_clauses'])
        return 1
    print('REPLAY: does not fail on the current tree')
    return 0


def _killpg(proc):
    try:
        import signal
        os.killpg(proc.pid, signal.SIGKILL)
    except Exception:
        try:
            proc.kill()
        except Exception:
            pass


def main(argv):
    if len(argv) >= 3 and argv[1] == '--replay':
        return do_replay(argv[2])
    prop = argv[1]
    tier = os.environ.get('VERIF_TIER', 'quick')
    if '--tier' in argv:
        tier = argv[argv.index('--tier') + 1]
    seed = int(os.environ.get('VERIF_SEED', '0') or 0)
    t0 = time.time()
    reg = runner.load_contracts()
    sel = contracts_for(reg, prop)
    harness.packages()
    st = harness.explorer_selftest()
    if st:
        print('CHECKER-ERROR engine self-test: %s' % '; '.join(st))
        return 3
    from . import validate
    nv, vbad = validate.run(seed, 12 if tier == 'quick' else 120)
    if vbad:
        print('CHECKER-ERROR NumPy contract library disagrees with the installed NumPy: %s' % '; '.join('%s :: %s' % (a, b[:160]) for a, b in vbad[:3]))
        return 3
    evidence = {'property_id': prop, 'tier': tier, 'seed': seed, 'level': 'proof', 'coverage': {}, 'assumptions': [],
                'wall_s': 0.0, 'violations': 0}
    if not sel:
        print('CHECKER-ERROR no contract carries property %s' % prop)
        return 3
    tasks = []
    per_contract_cfgs = {}
    for name, tagged in sel:
        c = reg[name]
        cfgs = list(c.configs(tier))
        stride = 1
        if getattr(c, 'primary', None) is not None and prop not in c.primary:
            stride = getattr(c, 'secondary_stride', 4) * (1 if tier == 'quick' else 8)
        if stride > 1:
            # secondary contract for this property: every stride-th configuration, offset chosen by the seed
            cfgs = cfgs[seed % stride::stride]
        per_contract_cfgs[name] = len(cfgs)
        tasks += [(name, cfg) for cfg in cfgs]
    # the bit-operation lemmas B1-B4 (Python ints = mathematical integers in two's complement) are proved in Lean 4 /
    # Mathlib (lemmas/BitLemmas.lean); the file is re-checked by `lean` concurrently with the obligations of this run
    lean_proc = None
    lean_sh = os.path.join(HERE, 'lemmas', 'check_lemmas.sh')
    if os.path.exists(lean_sh) and os.environ.get('FXPV_NO_LEAN') != '1':
        try:
            import subprocess
            lean_proc = subprocess.Popen(['sh', lean_sh], stdout=subprocess.PIPE, stderr=subprocess.STDOUT, text=True, start_new_session=True)
        except Exception:
            lean_proc = None
    results = runner.run_tasks(tasks)

    # ---- aggregate -------------------------------------------------------------------------------------
    obligations = discharged = undecided = 0
    failures = []          # (result, obligation)
    checker_errors = []
    native_failures = []
    undecided_paths = []
    undecided_obl = []
    backend = {}
    solver_s = 0.0
    paths = concolic = bounded_evals = 0
    assumed = set()
    samples = []
    slowest = None
    reached = {}
    fallback_hits = []
    per_contract = {}
    funcs_sym = {}
    bounded_cases = bounded_clauses = 0
    bounded_samples = []
    for r in results:
        c = reg[r['contract']]
        pc = per_contract.setdefault(r['contract'], {'configs': 0, 'paths': 0, 'obligations': 0, 'discharged': 0})
        pc['configs'] += 1
        pc['paths'] += r['paths']
        paths += r['paths']
        concolic += r['concolic']
        solver_s += r['solver_s']
        bounded_evals += r.get('bounded_evaluations', 0)
        assumed |= set(r['assumed'])
        for fq in r.get('funcs', ()):
            funcs_sym[fq] = funcs_sym.get(fq, 0) + 1
        checker_errors += [(r['contract'], r['cfg'], e) for e in r['checker_errors']]
        undecided_paths += [(r['contract'], r['cfg'], u) for u in r['undecided_paths']]
        if r.get('bounded_fallback') and r['bounded_fallback'].get('failure'):
            fallback_hits.append((r, r['bounded_fallback']['failure']))
        for nf in r['native_failures']:
            if any(clause_serves(c, cl, prop) for cl in nf['clauses']):
                native_failures.append((r, nf))
        for cl, n in r['clauses_reached'].items():
            reached[(r['contract'], base_clause(cl))] = reached.get((r['contract'], base_clause(cl)), 0) + n
        if r.get('native_only'):
            bounded_cases += r.get('bounded_cases', 0)
            if len(bounded_samples) < 4:
                bounded_samples.append(r.get('bounded_sample'))
        for o in r['obligations']:
            if not clause_serves(c, o['label'], prop):
                continue
            if o['backend'] == 'bounded':
                bounded_clauses += 1
                if o['result'] == 'failed':
                    failures.append((r, o))
                continue
            obligations += 1
            pc['obligations'] += 1
            backend[o['backend']] = backend.get(o['backend'], 0) + 1
            if o['result'] == 'discharged':
                discharged += 1
                pc['discharged'] += 1
                if len(samples) < 6 and o['backend'] in ('z3', 'z3-batch') and (len(samples) == 0 or samples[-1]['contract'] != r['contract'] or len(samples) < 3):
                    samples.append({'contract': r['contract'], 'clause': o['label'], 'config': r['cfg'], 'path': o.get('path'),
                                    'result': o['result'], 'backend': o['backend'], 'time_s': round(o.get('time', 0.0), 4)})
            elif o['result'] == 'failed':
                failures.append((r, o))
            else:
                undecided += 1
                if len(undecided_obl) < 5:
                    undecided_obl.append({'contract': r['contract'], 'clause': o['label'], 'config': r['cfg'], 'why': str(o.get('solver'))[:120], 'time_s': round(o.get('time', 0.0), 2)})
            if slowest is None or o.get('time', 0) > slowest['time_s']:
                slowest = {'contract': r['contract'], 'clause': o['label'], 'time_s': round(o.get('time', 0.0), 3)}

    # ---- vacuity guards -----------------------------------------------------------------------------------
    for name, tagged in sel:
        c = reg[name]
        if per_contract.get(name, {}).get('obligations', 0) == 0 and not getattr(c, 'native_only', False):
            checker_errors.append((name, None, 'zero obligations generated for %s (vacuous run)' % name))
        for cl in tagged:
            if cl in ('*', 'no_exception') or cl in getattr(c, 'conditional_clauses', ()):
                continue
            if reached.get((name, cl), 0) == 0:
                checker_errors.append((name, None, 'clause %s of %s was never reached by any path (vacuous)' % (cl, name)))

    # ---- known findings ------------------------------------------------------------------------------------
    known = load_known(prop)
    known_lines = []
    for e in known:
        if e.get('status', 'open') != 'open':
            continue
        rp = harness.replay_inputs(e['contract'], e['config'], e['input'], lenient=True)
        still = bool(rp.get('replayable') and rp.get('failed_clauses'))
        known_lines.append('KNOWN-FINDING: property=%s %s%s' % (prop, e['what'], '' if still else ' (recorded input no longer fails)'))

    def is_known(r, rp):
        """a violation is a *known* finding only when it is the recorded configuration and the recorded input
        (regions of open findings are excluded by the contracts' preconditions, not here)"""
        for e in known:
            if e.get('status', 'open') != 'open' or e['contract'] != r['contract']:
                continue
            if json.dumps(r['cfg'], sort_keys=True, default=str) != json.dumps(e.get('config'), sort_keys=True, default=str):
                continue
            got = harness._unjs(rp.get('inputs') or {})
            want = harness._unjs(e.get('input') or {})
            if all(got.get(k) == v for k, v in want.items()):
                return True
        return False

    # ---- verdict -------------------------------------------------------------------------------------------
    out_lines = []
    violations = 0
    nrep = 0
    seen_v = set()
    sha = tree_sha()
    def emit(r, label, rp, solver_out, confirmed, found_by):
        nonlocal violations, nrep
        key = (r['contract'], base_clause(label), json.dumps(r['cfg'], sort_keys=True, default=str) if confirmed else '')
        if key in seen_v or violations >= 25:
            violations += 0 if key in seen_v else 1
            return
        seen_v.add(key)
        nrep += 1
        path = write_replay(prop, nrep, {'property': prop, 'contract': r['contract'], 'obligation': label, 'clause': base_clause(label),
                                         'config': r['cfg'], 'inputs': (rp or {}).get('inputs'), 'expected': 'clause %s holds' % base_clause(label),
                                         'observed': (rp or {}).get('obs'), 'failed_clauses_native': (rp or {}).get('failed_clauses'),
                                         'confirmed_on_real_code': confirmed, 'found_by': found_by, 'solver_output': solver_out, 'tree_sha': sha})
        violations += 1
        out_lines.append('VIOLATION property=%s replay=%s%s' % (prop, path, '' if confirmed else ' no-failing-input-found'))

    for r, o in failures:
        rp = o.get('replay') or {}
        confirmed = bool(rp.get('replayable') and rp.get('failed_clauses'))
        c = reg[r['contract']]
        if confirmed and not any(clause_serves(c, cl, prop) for cl in rp['failed_clauses']):
            confirmed = False
        if o['kind'] == 'side' and not confirmed:
            undecided += 1      # an FP-exactness / no-wrap side condition that could not be proved: not a verdict
            continue
        if confirmed and is_known(r, rp):
            continue
        emit(r, o['label'], rp, {'result': o.get('solver'), 'model': o.get('model'), 'backend': o.get('backend')}, confirmed, rp.get('found_by'))
    for r, nf in native_failures:
        rp = {'inputs': nf['inputs'], 'failed_clauses': nf['clauses'], 'obs': nf.get('obs'), 'replayable': True}
        if is_known(r, rp):
            continue
        emit(r, nf['clauses'][0], rp, 'concolic witness of a path failed the contract natively', True, 'concolic')
    for r, hit in fallback_hits:
        c = reg[r['contract']]
        if not any(clause_serves(c, cl, prop) for cl in hit.get('failed_clauses', [])):
            continue
        if is_known(r, hit):
            continue
        emit(r, hit['failed_clauses'][0], hit, 'found by the bounded stand-in after an undecided path', True, 'bounded')

    level = 'proof'
    if undecided or undecided_paths:
        level = 'other'
    bounded_only = obligations == 0 and bounded_clauses > 0
    if bounded_only:
        level = 'exploration'
    wall = time.time() - t0
    cov = {
        'obligations': obligations, 'discharged': discharged,
        'checker_cmd': './check %s --tier %s' % (prop, tier),
        'trusted_base': ['CPython %s executing control flow and heap operations of the real function bodies' % sys.version.split()[0],
                         'assumed contracts of NumPy %s / builtins (fxpv.npc, fxpv.pyc), cross-checked concolically on every path and differentially validated before each run (fxpv.validate: %d comparisons against the installed NumPy on constant-symbolic data, 0 disagreements)' % (__import__('numpy').__version__, nv),
                         'float64 treated as exact rational arithmetic under proved side conditions (FP-exact)',
                         'z3 %s, cvc5 (fallback)' % __import__('z3').get_version_string(), 'the fxpv explorer'],
        'functions_under_contract': sorted(per_contract), 'per_contract': per_contract,
        'repo_functions_executed_symbolically': {k: funcs_sym[k] for k in sorted(funcs_sym)},
        'repo_functions_executed_note': 'real functions of /repo/fxpmath/{utils,objects,functions}.py whose (T1-T7 transformed) bodies ran on symbolic data inside at least one contract of this check, with the number of configurations that entered them (T7 entry records); %d of the %d functions defined in those files were entered; functions reached only by bounded (native) contracts are not listed' % (len(funcs_sym), len(loader.ALL_FUNCTIONS)), 'configs': len(tasks), 'paths': paths,
        'backend': backend, 'solver_s': round(solver_s, 2), 'slowest_obligation': slowest,
        'undecided_obligations': undecided, 'undecided_paths': len(undecided_paths),
        'undecided_samples': [{'contract': a, 'config': b, 'why': c_} for a, b, c_ in undecided_paths[:5]] + undecided_obl,
        'traces_validated_against_impl': concolic, 'bounded_evaluations': bounded_evals,
        'transform_counts': loader.TRANSFORM_COUNTS, 'source_sha256': loader.SOURCE_SHA, 'tree_sha': sha,
        'numpy_version': __import__('numpy').__version__, 'n_word_max': harness.packages()[1].pkg._n_word_max,
        'samples': samples if samples else bounded_samples, 'known_findings_printed': known_lines,
        'evaluations': (obligations if not bounded_only else bounded_cases),
        'distinct_nontrivial': (sum(v for k, v in backend.items() if k in ('z3', 'z3-batch', 'cvc5')) if not bounded_only else bounded_cases),
        'rule': ('one evaluation = one proof obligation (clause x path x configuration); non-trivial = needed an SMT query (not folded by evaluation/simplification)'
                 if not bounded_only else 'bounded stand-in: one evaluation = one run-time contract check of one concrete case (format x code / string) on the untransformed library; cases are enumerated (exhaustive over the stated finite domain where the evidence says exhaustive) so each is distinct and non-trivial'),
        'bounded_parts': {'clause_evaluations': bounded_clauses, 'cases': bounded_cases, 'samples': bounded_samples},
        'exhaustive': bool(bounded_only and tier == 'thorough' and prop == 'C12'),
        'explanation': 'contract-based deductive verification: %d obligations, %d discharged, %d undecided (see undecided_samples); level is "other" whenever something is undecided' % (obligations, discharged, undecided + len(undecided_paths)),
    }
    # B-lemmas: machine-checked in this run -> no longer assumptions (what stays assumed: CPython's int operators
    # & | ^ ~ >> << are the two's-complement operations on mathematical integers that Lean's Int.land/lor/xor/not/shift define)
    lean_map = {'B1:': 'and_mask', 'B1b:': 'and_pow', 'B2:': 'or_neg_pow', 'B3:': 'shr_eq_div / shl_eq_mul',
                'B4:': 'and_range / or_range / xor_range / compl_in_width / testBit_and / testBit_or / testBit_xor / testBit_iff_digit'}
    used_b = sorted(a for a in assumed if a.split(' ')[0] in lean_map)
    lean_info = None
    if used_b:
        lean_ok, lean_out, lean_s = False, 'lean not run', 0.0
        if lean_proc is not None:
            tl = time.time()
            try:
                lean_out, _ = lean_proc.communicate(timeout=int(os.environ.get('FXPV_LEAN_TIMEOUT', '420')))
                lean_ok = lean_proc.returncode == 0
            except Exception as e:
                _killpg(lean_proc); lean_out = 'lean did not finish: %s' % e
            lean_s = time.time() - tl
        src = open(os.path.join(HERE, 'lemmas', 'BitLemmas.lean')).read() if os.path.exists(os.path.join(HERE, 'lemmas', 'BitLemmas.lean')) else ''
        proved = {a: lean_map[a.split(' ')[0]] for a in used_b
                  if lean_ok and all(('theorem ' + t.strip()) in src for t in lean_map[a.split(' ')[0]].split('/'))}
        lean_info = {'file': 'lemmas/BitLemmas.lean', 'checker': 'lean 4 + Mathlib (lemmas/check_lemmas.sh)', 'checked_in_this_run': bool(lean_ok),
                     'extra_wait_s': round(lean_s, 1), 'lemmas_used_and_proved': proved,
                     'output_tail': (lean_out or '')[-300:]}
        if proved:
            assumed = {a for a in assumed if a not in proved}
            assumed.add('CPython int operators & | ^ ~ >> << are the two\'s-complement operations on mathematical integers (Lean: Int.land/lor/xor, ~~~, >>>, <<<); the B-lemmas about them are proved in lemmas/BitLemmas.lean')
    elif lean_proc is not None:
        _killpg(lean_proc)
    if lean_info:
        cov['lemmas_machine_checked'] = lean_info
    evidence.update(level=level, coverage=cov, assumptions=sorted(assumed), wall_s=round(wall, 2), violations=violations)
    evdir = os.environ.get('FXPV_EVIDENCE_DIR') or os.path.join(HERE, 'evidence')      # the override is for tools/seedcheck.py only (runs on a changed scratch tree)
    os.makedirs(evdir, exist_ok=True)
    with open(os.path.join(evdir, '%s.json' % prop), 'w') as f:
        json.dump(evidence, f, indent=1, default=str)

    for l in known_lines:
        print(l)
    if checker_errors:
        for a, b, e in checker_errors[:5]:
            print('CHECKER-ERROR %s %s %s' % (a, json.dumps(b, default=str), str(e)[:1200]))
        if not violations:
            return 3
    for l in out_lines:
        print(l)
    print('%s tier=%s contracts=%d configs=%d paths=%d obligations=%d discharged=%d undecided=%d violations=%d solver=%.1fs wall=%.1fs'
          % (prop, tier, len(sel), len(tasks), paths, obligations, discharged, undecided + len(undecided_paths), violations, solver_s, wall))
    return 1 if violations else 0


if __name__ == '__main__':
    sys.exit(main(sys.argv))
