"""Format conversion by every route (C10), with separation / non-mutation clauses (C20)."""
from fractions import Fraction
from fxpv.harness import Contract, contract
from specs.core import *
from contracts.common import *
from contracts.l2_core import MODES
from contracts.l3_fxp import LOWER, meta_clauses

ROUTES = ('resize', 'resize_dtype', 'resize_nint', 'ctor_from_fxp', 'ctor_like', 'ctor_like_kw', 'like_method', 'equal', 'call', 'set_val', 'setitem', 'fxp_like')


def conv_formats(tier):
    if tier == 'quick':
        return [(True, 8, 2), (False, 8, 3), (True, 3, 0), (False, 2, 2), (True, 16, 17), (True, 12, -2), (False, 31, 10), (True, 52, 20), (True, 1, 0),
                (False, 8, 2), (False, 4, 0), (True, 7, 3), (True, 12, 2)]
    out = []
    for s in (True, False):
        for n, fr in ((1, (0, 9)), (3, (-8, 1)), (6, (0, 3, 14)), (8, (-1, 4, 8)), (16, (0, 17)), (31, (10, -8)), (52, (0, 26, 60))):
            for f in fr:
                out.append((s, n, f))
    return out


@contract
class Convert(Contract):
    """Converting a stored value into another format by any route gives the exact source value quantized
    into the destination format under the destination's rounding and overflow modes; the shape is preserved,
    the source is unchanged, and (for routes that create an object) nothing mutable is shared."""
    name = 'objects:Fxp.convert-routes'
    primary = ['C10', 'C20', 'C03', 'C05']      # conversions re-quantize (C05) and, under wrap, reinterpret the word (C03): every configuration
    secondary_stride = 3
    layer = 5
    uses = LOWER
    props = {'code_eq_Q': ['C10', 'C05', 'C03'], 'format': ['C10', 'C02'], 'shape': ['C10'], 'source_unchanged': ['C10', 'C20'],
             'flag_overflow': ['C04', 'C05'], 'flag_underflow': ['C04', 'C05'], 'in_range': ['C02'], 'separate_state': ['C20'],
             'no_exception': ['C10'], 'meta_n_int': ['C02'], 'meta_limits': ['C02'], 'meta_status_keys': ['C02', 'C04'],
             'others_unchanged': ['C10'], 'governing_config': ['C10'],
             'readback': ['C16', 'C10', 'C01', 'C08', 'C09'], 'vdtype_consistent': ['C16', 'C02', 'C08', 'C09'], 'store_dtype': ['C02', 'C10', 'C01'], 'alias_unchanged': ['C10', 'C20'], 'template_unchanged': ['C10', 'C20'], 'flag_inaccuracy': ['C04', 'C05']}

    def configs(self, tier):
        fm = conv_formats(tier)
        from fxpv.harness import open_findings
        k = 0
        for src in fm:
            for dst in fm:
                if dst[2] - src[2] >= 63 and 'F14' in open_findings():
                    continue      # open finding F14: the scale factor 2^(shift) does not fit int64 -> OverflowError
                for route in ROUTES:
                    shapes = ([], [2]) if route != 'setitem' else ([],)
                    for shape in shapes:
                        k += 1
                        if tier == 'quick':
                            if (k % 3) and route not in ('equal', 'like_method') and not (src[0] != dst[0] and src[2] == dst[2]) \
                                    and not (route == 'setitem' and src[2] == dst[2]):
                                continue
                            modes = [MODES[k % len(MODES)]]
                        else:
                            modes = [MODES[k % len(MODES)], MODES[(k + 3) % len(MODES)]]
                        for rule, mode in modes:
                            yield dict(src=list(src), dst=list(dst), route=route, shape=shape, rule=rule, mode=mode)
        # sources that were DERIVED from another object first (an element read by indexing, a flattened copy): their cached
        # attributes (real / imag / shape-dependent state) may be stale, the codes are what counts
        j = 0
        for src in fm:
            for dst in fm:
                if dst[2] == src[2] or abs(dst[2] - src[2]) >= 40:
                    continue
                for route in ('ctor_like', 'set_val', 'setitem', 'call', 'equal', 'ctor_from_fxp', 'like_method'):
                    j += 1
                    if j % (5 if tier == 'quick' else 2):
                        continue
                    via, shape = (('getitem', []), ('flatten', [2]))[(j // 5) % 2 if route != 'setitem' else 0]
                    rule, mode = MODES[j % len(MODES)]
                    yield dict(src=list(src), dst=list(dst), route=route, shape=shape, rule=rule, mode=mode, src_via=via)

    def inputs(self, cfg, D):
        s, w, f = cfg['src']
        ds, dw, df = cfg['dst']
        cs = codes_in(D, 'c', nelem(cfg['shape']), s, w)
        # core domain: the source value scaled into the destination stays below 2^62 in magnitude
        if df - f > 0:
            for c in cs:
                D.assume(And(scale2(M(c), df - f) < 2**62, scale2(M(c), df - f) > -2**62))
        if cfg.get('src_via') == 'getitem':
            # an element object starts with cleared flags (Fxp(like=base) resets the status record): the flags of the base do not travel
            return {'c': cs, 'old': codes_in(D, 'o', 3, ds, dw), 'isrc': False, 'st_dst': sym_status(D, 'dst'), 'osrc': False, 'usrc': False}
        return {'c': cs, 'old': codes_in(D, 'o', 3, ds, dw), 'isrc': D.bool('inacc_src'), 'st_dst': sym_status(D, 'dst'),
                'osrc': D.bool('ovf_src'), 'usrc': D.bool('unf_src')}

    def run(self, cfg, P, inp):
        s, w, f = cfg['src']; ds, dw, df = cfg['dst']
        route = cfg['route']
        gov = {'rounding': cfg['rule'], 'overflow': cfg['mode']}
        other = {'rounding': 'ceil' if cfg['rule'] != 'ceil' else 'floor', 'overflow': 'wrap' if cfg['mode'] == 'saturate' else 'saturate'}
        shape = tuple(cfg['shape'])
        n = nelem(shape)
        in_place = route in ('resize', 'resize_dtype', 'resize_nint')
        src = make_fxp(P, s, w, f, codes=inp['c'], shape=shape, cfg=gov if in_place else other,
                       status={'inaccuracy': inp['isrc'], 'overflow': inp['osrc'], 'underflow': inp['usrc']}, vdtype=float if f > 0 else int)
        if cfg.get('src_via') == 'getitem':
            base = make_fxp(P, s, w, f, codes=[inp['c'][0], inp['c'][0]], shape=(2,), cfg=gov if in_place else other,
                            status={'inaccuracy': inp['isrc'], 'overflow': inp['osrc'], 'underflow': inp['usrc']}, vdtype=float if f > 0 else int)
            src = base[1]
        elif cfg.get('src_via') == 'flatten':
            base = make_fxp(P, s, w, f, codes=inp['c'], shape=(1, 2), cfg=gov if in_place else other,
                            status={'inaccuracy': inp['isrc'], 'overflow': inp['osrc'], 'underflow': inp['usrc']}, vdtype=float if f > 0 else int)
            src = base.flatten()
        bsrc = dict(src.__dict__); v0 = list(elems(src.val)); st0 = dict(src.status); c0 = dict(src.config.__dict__)
        dst = None
        if route == 'ctor_like_kw':
            # the template carries OTHER modes; the modes are given as keywords next to like=: they govern the new object only
            dst = make_fxp(P, ds, dw, df, codes=inp['old'][:n], shape=shape, cfg=other, vdtype=float, status=inp['st_dst'])
        elif route in ('ctor_like', 'like_method', 'equal', 'call', 'set_val', 'fxp_like'):
            dst = make_fxp(P, ds, dw, df, codes=inp['old'][:n], shape=shape, cfg=gov, vdtype=float, status=inp['st_dst'])
        elif route == 'setitem':
            dst = make_fxp(P, ds, dw, df, codes=inp['old'], shape=(3,), cfg=gov, vdtype=float, status=inp['st_dst'])
        # a shallow copy shares the code buffer: converting the original must re-bind, never overwrite, that buffer
        target = src if in_place else (dst if route in ('equal', 'call', 'set_val') else None)
        alias = target.copy() if target is not None else None
        alias0 = list(elems(alias.val)) if alias is not None else None
        if route == 'resize':
            src.resize(ds, dw, df); z = src
        elif route == 'resize_dtype':
            src.resize(dtype=fmt_str(ds, dw, df)); z = src
        elif route == 'resize_nint':
            # the same target format given as signed + n_word + n_int (the fraction length follows arithmetically, with the NEW signedness)
            src.resize(signed=ds, n_word=dw, n_int=dw - df - (1 if ds else 0)); z = src
        elif route == 'ctor_from_fxp':
            z = P.Fxp(src, ds, dw, df, rounding=cfg['rule'], overflow=cfg['mode'])
        elif route == 'ctor_like':
            z = P.Fxp(src, like=dst)
        elif route == 'ctor_like_kw':
            tcfg0 = dict(dst.config.__dict__)
            z = P.Fxp(src, like=dst, rounding=cfg['rule'], overflow=cfg['mode'])
        elif route == 'like_method':
            z = src.like(dst)
        elif route == 'equal':
            z = dst.equal(src)
        elif route == 'call':
            z = dst(src)
        elif route == 'set_val':
            z = dst.set_val(src)
        elif route == 'setitem':
            dst[1] = src; z = dst
        elif route == 'fxp_like':
            z = P.functions.fxp_like(dst, src)
        o = obs_fxp(z)
        o['alias_unchanged'] = True if alias is None else same_elems(elems(alias.val), alias0)
        o['template_unchanged'] = True if route != 'ctor_like_kw' else (dst.config.__dict__ == tcfg0 and dst.config.rounding == other['rounding'] and dst.config.overflow == other['overflow'])
        o['val_dtype_name'] = 'object' if z.val.dtype == object else str(z.val.dtype)
        o['getval'] = z.get_val()
        o['vdtype_is_int'] = z.vdtype is int
        if not in_place:
            o['source_unchanged'] = all(src.__dict__[k] is bsrc[k] for k in bsrc) and same_elems(elems(src.val), v0) \
                and same_status(src.status, st0) and src.config.__dict__ == c0
        else:
            o['source_unchanged'] = True
        sep = True
        if route in ('ctor_from_fxp', 'ctor_like', 'ctor_like_kw', 'like_method', 'fxp_like'):
            objs = [src] + ([dst] if dst is not None else [])
            for q in objs:
                sep = sep and z is not q and z.config is not q.config and z.status is not q.status and not shares_buffer(z.val, q.val) \
                    and (z.callbacks is not q.callbacks)
        o['separate'] = sep
        return o

    def post(self, cfg, inp, obs):
        if obs['exc']:
            return {}
        s, w, f = cfg['src']; ds, dw, df = cfg['dst']
        route = cfg['route']
        lo, hi = range_of(ds, dw)
        out = {'format': And(obs['signed'] == ds, obs['n_word'] == dw, obs['n_frac'] == df, obs['dtype'] == fmt_str(ds, dw, df)),
               'source_unchanged': obs['source_unchanged'], 'separate_state': obs['separate'],
               'governing_config': And(obs['rounding'] == cfg['rule'], obs['overflow'] == cfg['mode']),
               'alias_unchanged': obs['alias_unchanged'], 'template_unchanged': obs['template_unchanged'],
               'store_dtype': obs['val_dtype_name'] == ('object' if dw >= 64 else ('int64' if ds else 'uint64'))}
        mc = meta_clauses(dict(signed=ds, n_word=dw, n_frac=df, rule=cfg['rule'], mode=cfg['mode']), obs)
        for k in ('meta_n_int', 'meta_limits', 'meta_status_keys'):
            out[k] = mc[k]
        codes = [M(c) for c in elems(obs['val'])]
        cs = [M(c) for c in inp['c']]
        if route == 'setitem':
            out['shape'] = list(obs['val'].shape) == [3]
            if len(codes) != 3:
                return out
            olds = [M(o) for o in inp['old']]
            out['others_unchanged'] = And(eq(codes[0], olds[0]), eq(codes[2], olds[2]))
            pairs = [(codes[1], cs[0])]
        else:
            out['shape'] = list(obs['val'].shape) == cfg['shape']
            if len(codes) != len(cs):
                return out
            pairs = list(zip(codes, cs))
        Rs = []
        for i, (cz, c) in enumerate(pairs):
            R = ROUND(scale2(c, df - f), cfg['rule'])
            Rs.append(R)
            out['code_eq_Q[%d]' % i] = eq(cz, OVF(R, ds, dw, cfg['mode']))
            gi = i if route != 'setitem' else 1
            out['readback[%d]' % i] = eq(M(elems(obs['getval'])[gi]), scale2(cz, -df))
            out['in_range[%d]' % i] = And(cz >= lo, cz <= hi)
        st = obs['status']
        out['vdtype_consistent'] = Not(And(obs['vdtype_is_int'], df > 0))
        any_hi = Or(*[R > hi for R in Rs]); any_lo = Or(*[R < lo for R in Rs])
        inexact = Or(*[Not(eq(scale2(cz, -df), scale2(c, -f))) for cz, c in pairs])
        d0 = inp['st_dst']
        if route in ('resize', 'resize_dtype', 'resize_nint'):
            base = {'overflow': B(inp['osrc']), 'underflow': B(inp['usrc']), 'inaccuracy': B(inp['isrc'])}     # in place: sticky
            prop = False
        elif route in ('equal', 'call', 'set_val', 'setitem', 'fxp_like'):
            base = {k: B(d0[k]) for k in ('overflow', 'underflow', 'inaccuracy')}                               # in place on dst (fxp_like: on a deep copy of it)
            prop = B(inp['isrc']) if route != 'equal' else False
        elif route in ('ctor_from_fxp', 'ctor_like', 'ctor_like_kw'):
            base = {'overflow': False, 'underflow': False, 'inaccuracy': False}                                  # a fresh status record
            prop = B(inp['isrc'])
        else:
            base = None                                                                                          # like(): only the lower bound is claimed
        if base is not None:
            out['flag_overflow'] = Iff(B(st['overflow']), Or(base['overflow'], any_hi))
            out['flag_underflow'] = Iff(B(st['underflow']), Or(base['underflow'], any_lo))
            out['flag_inaccuracy'] = Iff(B(st['inaccuracy']), Or(base['inaccuracy'], inexact, prop))
        else:
            out['flag_overflow'] = Implies(any_hi, B(st['overflow']))
            out['flag_underflow'] = Implies(any_lo, B(st['underflow']))
            out['flag_inaccuracy'] = Implies(inexact, B(st['inaccuracy']))
        return out
