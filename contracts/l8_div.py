"""Division family (C09): truediv, floordiv, mod through the operators, optimal sizing."""
from fractions import Fraction
from fxpv.harness import Contract, contract
from specs.core import *
from contracts.common import *
from contracts.l3_fxp import LOWER


def div_formats(tier):
    out = []
    words = (1, 2, 3) if tier == 'quick' else (1, 2, 3, 4, 5)
    for s in (True, False):
        for n in words:
            for f in range(-1, n + 2):
                out.append((s, n, f))
        if tier == 'quick':
            out += [(s, 5, 2), (s, 12, 6), (s, 10, 3)]
        else:
            out += [(s, 8, 4), (s, 12, 6), (s, 10, 3), (s, 16, 0)]
    return out


@contract
class Division(Contract):
    """x / y is within one LSB of the exact quotient (hence exact when representable) and never overflows
    with optimal sizing; x // y == floor(x / y) exactly; x % y == x - y*floor(x / y) exactly (sign of the
    divisor); raw and repr methods obey the same clauses."""
    name = 'functions:truediv/floordiv/mod'
    primary = ['C09']
    secondary_stride = 8
    layer = 5
    uses = LOWER
    props = {'*': ['C09'], 'in_range': ['C09', 'C02'], 'format_valid': ['C09', 'C02'], 'operands_unchanged': ['C20']}

    def configs(self, tier):
        fm = div_formats(tier)
        k = 0
        for i, x in enumerate(fm):
            for j, y in enumerate(fm):
                if x[1] > 5 and y[1] > 5 and x[1] + y[1] > 24:
                    continue
                for op in ('truediv', 'floordiv', 'mod'):
                    for method in ('raw', 'repr'):
                        k += 1
                        if tier == 'quick' and ((i + j + k) % 4 or (op == 'mod' and max(x[1], y[1]) > 8)):
                            continue
                        rule = ('trunc', 'floor', 'around')[(i + 2 * j + k) % 3]
                        yield dict(op=op, x=list(x), y=list(y), method=method, rule=rule)
                        if k % 20 == 0:
                            # operands the library derived itself: an element read from an array, a shallow copy
                            yield dict(op=op, x=list(x), y=list(y), method=method, rule=rule, xder='item', yder='copy')
                            yield dict(op=op, x=list(x), y=list(y), method=method, rule=rule, xder='copy', yder='item')
                        if method == 'repr' and (x[2] <= 0 or y[2] <= 0):
                            yield dict(op=op, x=list(x), y=list(y), method=method, rule=rule, vint=True)

    def inputs(self, cfg, D):
        sx, wx, fx = cfg['x']; sy, wy, fy = cfg['y']
        cx = codes_in(D, 'cx', 1, sx, wx); cy = codes_in(D, 'cy', 1, sy, wy)
        D.assume(Not(eq(M(cy[0]), 0)))
        return {'cx': cx, 'cy': cy}

    def run(self, cfg, P, inp):
        sx, wx, fx = cfg['x']; sy, wy, fy = cfg['y']
        if cfg.get('xder'):
            x = derived_fxp(P, cfg['xder'], sx, wx, fx, inp['cx'], (), cfg={'op_method': cfg['method'], 'rounding': cfg['rule']}, vdtype=float)
            y = derived_fxp(P, cfg['yder'], sy, wy, fy, inp['cy'], (), vdtype=float)
        else:
            x = make_fxp(P, sx, wx, fx, codes=inp['cx'], shape=(), cfg={'op_method': cfg['method'], 'rounding': cfg['rule']}, vdtype=int if (cfg.get('vint') and fx <= 0) else float)
            y = make_fxp(P, sy, wy, fy, codes=inp['cy'], shape=(), vdtype=int if (cfg.get('vint') and fy <= 0) else float)
        bx, by = dict(x.__dict__), dict(y.__dict__)
        z = {'truediv': lambda: x / y, 'floordiv': lambda: x // y, 'mod': lambda: x % y}[cfg['op']]()
        o = obs_fxp(z)
        o['unchanged'] = all(x.__dict__[k] is bx[k] for k in bx) and all(y.__dict__[k] is by[k] for k in by)
        return o

    def post(self, cfg, inp, obs):
        if obs['exc']:
            return {}
        sx, wx, fx = cfg['x']; sy, wy, fy = cfg['y']
        S, W, F = obs['signed'], obs['n_word'], obs['n_frac']
        out = {'format_valid': And(S == (sx or sy), isinstance(W, int), isinstance(F, int), obs['n_int'] == W - F - int(S), obs['dtype'] == fmt_str(S, W, F)),
               'operands_unchanged': obs['unchanged']}
        lo, hi = range_of(S, W)
        cz = M(elems(obs['val'])[0])
        cx, cy = M(inp['cx'][0]), M(inp['cy'][0])
        out['in_range'] = And(cz >= lo, cz <= hi)
        st = obs['status']
        out['no_overflow'] = And(Not(B(st['overflow'])), Not(B(st['underflow'])))
        # exact quotient q = (cx * 2^-fx) / (cy * 2^-fy) = cx * 2^(fy - fx) / cy
        e = fy - fx
        num, den = (scale2(cx, e), cy) if e >= 0 else (cx, scale2(cy, -e))        # integers, q = num / den
        if cfg['op'] == 'truediv':
            # |cz * 2^-F - q| < 2^-F   <=>   |cz * den - num * 2^F| < |den|   (F >= 0 here; general: scale both)
            if F >= 0:
                lhs = cz * den - scale2(num, F)
                bound = abs_(den)
            else:
                lhs = scale2(cz, -F) * den - num
                bound = abs_(den) * pow2(-F)
            out['within_one_lsb'] = And(lhs < bound, lhs > -bound)
        elif cfg['op'] == 'floordiv':
            # value(z) == floor(q): with v = cz * 2^-F an integer-valued quantity: v*den <= num < (v+1)*den  (den>0)
            v = scale2(cz, -F)
            out['value_is_integer'] = is_int(v)
            out['exact_floor'] = ite(den > 0, And(v * den <= num, num < (v + 1) * den), And(v * den >= num, num > (v + 1) * den))
        else:
            # value(w) == vx - vy*floor(vx/vy): with G = max(fx, fy): w*2^G is congruent, has the divisor's sign and |w| < |vy|
            G = max(fx, fy)
            X, Y = scale2(cx, G - fx), scale2(cy, G - fy)           # integers: vx = X*2^-G, vy = Y*2^-G
            w = scale2(cz, G - F)                                      # value(w) * 2^G
            out['mod_is_multiple'] = is_int(w) if G - F < 0 else True
            fl = floor_div_witness(X, Y)
            out['mod_exact'] = eq(w, X - Y * fl)
        return out


def floor_div_witness(X, Y):
    """floor(X / Y) for integer X, Y != 0 (mathematical)"""
    from fxpv import core
    from fxpv.core import MTerm, mterm
    if isinstance(X, MTerm) or isinstance(Y, MTerm):
        import z3
        tx, ty = mterm(X).t, mterm(Y).t
        q = core.CTX.fresh('fq', 'int'); r = core.CTX.fresh('fr', 'int')
        core.CTX.solver.add(tx == ty * q + r, z3.Or(z3.And(ty > 0, r >= 0, r < ty), z3.And(ty < 0, r <= 0, r > ty)))
        return MTerm(q)
    X, Y = Fraction(X), Fraction(Y)
    fr = X / Y
    return fr.numerator // fr.denominator
