"""fxpv.npc -- the contract library that stands for the module-global `np` inside the shadow
modules (T1).  Every entry point here is an *assumed contract* of NumPy over proxies; each one is
policed by differential validation (fxpv.validate) and by the per-path concolic cross-check.

Calls whose arguments contain no symbolic data are forwarded to the real NumPy and the result is
re-wrapped, so configuration-only code runs with NumPy's own semantics.
"""
import sys
import builtins as _b
import numpy as _np
import z3
from . import core
from .core import SNum, SBool, Undecided, CheckerError, mkbool, band, bor, bnot, zint, zreal, kind_of
from . import arr as A
from .arr import SBase, SArr, SGen, new_like, array as _array, asarray as _asarray

__version__ = _np.__version__

# ---- types and constants passed through ------------------------------------------------------
ndarray = SArr
generic = SGen
for _n in ('integer', 'floating', 'complexfloating', 'signedinteger', 'unsignedinteger', 'number', 'inexact',
           'object_', 'str_', 'bool_', 'int8', 'int16', 'int32', 'int64', 'uint8', 'uint16', 'uint32', 'uint64',
           'float16', 'float32', 'float64', 'complex64', 'complex128', 'intp', 'uintp', 'longlong',
           'pi', 'e', 'inf', 'nan', 'newaxis', 'iinfo', 'finfo', 'ndindex', 'errstate', 'character', 'bytes_'):
    globals()[_n] = getattr(_np, _n)
if hasattr(_np, 'float128'):
    float128 = _np.float128


def _has_proxy(x, depth=0):
    if isinstance(x, (SNum, SBool)):
        return True
    if isinstance(x, SBase):
        return True
    if isinstance(x, (list, tuple)) and depth < 4:
        return _b.any(_has_proxy(v, depth + 1) for v in x)
    if isinstance(x, dict):
        return _b.any(_has_proxy(v, depth + 1) for v in x.values())
    return False


def _has_symbolic(x, depth=0):
    if isinstance(x, (SNum, SBool)):
        return True
    if type(x).__name__ == 'Log2Of':
        return True
    if isinstance(x, str):
        from . import strs
        return strs.is_sstr(x)
    if isinstance(x, SBase):
        return x.symbolic
    if isinstance(x, (list, tuple)) and depth < 4:
        return _b.any(_has_symbolic(v, depth + 1) for v in x)
    if isinstance(x, dict):
        return _b.any(_has_symbolic(v, depth + 1) for v in x.values())
    return False


def _to_real(x, depth=0):
    """concrete proxy -> real numpy value (for forwarding)."""
    if isinstance(x, SGen):
        return _np.array(x.elems[0], dtype=x.dtype)[()]
    if isinstance(x, SArr):
        if x.dtype.kind == 'O':
            out = _np.empty(x.shape, dtype=object)
            flat = x.elems
            for i, ix in enumerate(_np.ndindex(*x.shape)):
                out[ix] = flat[i]
            return out
        return _np.array(x.elems, dtype=x.dtype).reshape(x.shape)
    if isinstance(x, list) and depth < 4:
        return [_to_real(v, depth + 1) for v in x]
    if isinstance(x, tuple) and depth < 4:
        return tuple(_to_real(v, depth + 1) for v in x)
    if isinstance(x, dict):
        return {k: _to_real(v, depth + 1) for k, v in x.items()}
    if x is SArr:
        return _np.ndarray
    return x


def _from_real(r):
    if isinstance(r, _np.ndarray):
        return A.from_real(r)
    if isinstance(r, _np.generic):
        return A.from_real(r)
    if isinstance(r, tuple):
        return tuple(_from_real(v) for v in r)
    if isinstance(r, list):
        return [_from_real(v) for v in r]
    return r


def _dispatch_target(args, kwargs):
    """NEP 13/18: the first argument (outside proxies) that overrides array protocols."""
    def scan(xs):
        for a in xs:
            if isinstance(a, (SBase, SNum, SBool, str, int, float, bool, type(None), _np.ndarray, _np.generic)):
                continue
            if isinstance(a, (list, tuple)):
                r = scan(a)
                if r is not None:
                    return r
                continue
            if hasattr(type(a), '__array_function__') or hasattr(type(a), '__array_ufunc__'):
                return a
        return None
    r = scan(args)
    if r is None and 'out' in kwargs and kwargs['out'] is not None:
        o = kwargs['out']
        r = scan(o if isinstance(o, tuple) else (o,))
    return r


class NpFunc:
    """A NumPy function / ufunc object of the contract library (hashable; usable as dispatch key)."""
    def __init__(self, name, impl=None, is_ufunc=False):
        self.__name__ = name
        self.name = name
        self.impl = impl
        self.is_ufunc = is_ufunc
        self.real = getattr(_np, name, None)

    def __repr__(self):
        return '<npc.%s>' % self.name

    def __call__(self, *args, **kwargs):
        tgt = _dispatch_target(args, kwargs)
        if tgt is not None:
            core.CTX.assumed_used.add('numpy: NEP-13/NEP-18 dispatch of np.%s to the overriding operand' % self.name)
            if self.is_ufunc and hasattr(type(tgt), '__array_ufunc__'):
                r = tgt.__array_ufunc__(self, '__call__', *args, **kwargs)
            elif hasattr(type(tgt), '__array_function__'):
                types = tuple({type(a) for a in args if hasattr(type(a), '__array_function__') and not isinstance(a, SBase)})
                r = tgt.__array_function__(self, types, args, kwargs)
            else:
                r = tgt.__array_ufunc__(self, '__call__', *args, **kwargs)
            if r is NotImplemented:
                raise TypeError('no implementation found for np.%s' % self.name)
            return r
        if not _has_symbolic(args) and not _has_symbolic(kwargs) and self.real is not None:
            ra = _to_real(tuple(args)); rk = _to_real(kwargs)
            return _from_real(self.real(*ra, **rk))
        if self.impl is None:
            raise Undecided('np.%s on symbolic data is not modelled' % self.name)
        core.CTX.assumed_used.add('numpy: np.%s' % self.name)
        return self.impl(*args, **kwargs)

    # ufunc methods used through _wrapped_numpy_func (method='reduce' etc.)
    def reduce(self, *a, **k):
        raise Undecided('ufunc.reduce')


_REG = {}

def _np_func(name, is_ufunc=False):
    def deco(f):
        obj = NpFunc(name, f, is_ufunc)
        _REG[name] = obj
        return obj
    return deco


# ---- constructors ------------------------------------------------------------------------------
def array(obj, dtype=None, copy=True, ndmin=0, **kw):
    if kw:
        raise Undecided('np.array kwargs %s' % list(kw))
    if ndmin:
        raise Undecided('np.array ndmin')
    return _array(obj, dtype=dtype, copy=copy)


def asarray(obj, dtype=None, *a, **kw):
    if a or kw:
        raise Undecided('np.asarray extra args')
    tgt = None
    if not isinstance(obj, (SBase, SNum, SBool, _np.ndarray, _np.generic, list, tuple, int, float, bool, str)) and hasattr(type(obj), '__array__'):
        return _asarray(obj.__array__(), dtype=dtype)
    return _asarray(obj, dtype=dtype)

asanyarray = asarray


def empty(shape, dtype=float, **kw):
    return A.from_real(_np.zeros(shape, dtype=dtype)) if _np.dtype(dtype).kind != 'O' else new_like(_np.empty(shape).shape, [None] * int(_np.prod(shape)), A.OBJ)


def zeros(shape, dtype=float, **kw):
    return A.from_real(_np.zeros(shape, dtype=dtype))


def ones(shape, dtype=float, **kw):
    return A.from_real(_np.ones(shape, dtype=dtype))


def dtype(x):
    return A.norm_dtype(x)


def issubdtype(a, b):
    if a is None:
        return _np.issubdtype(a, b)
    if a is SArr or a is SGen:
        return False
    return _np.issubdtype(a, b)


def result_type(*a):
    return _np.result_type(*[x.dtype if isinstance(x, SBase) else x for x in a])


def iscomplexobj(x):
    if isinstance(x, SBase):
        return False
    if isinstance(x, (SNum, SBool)):
        return False
    return _np.iscomplexobj(x)


def isscalar(x):
    if isinstance(x, (SNum, SBool, SGen)):
        return True
    if isinstance(x, SArr):
        return False
    return _np.isscalar(x)


def shape(x):
    return asarray(x).shape


def ndim(x):
    return asarray(x).ndim


def size(x):
    return asarray(x).size


# ---- elementwise functions -----------------------------------------------------------------------
def _map_elems(x, f, out_dt=None):
    if isinstance(x, SBase):
        el = [f(e) for e in x.elems]
        return A._finish(x.shape, el, out_dt or x.dtype, x.is_scalar or False) if x.is_scalar else new_like(x.shape, el, out_dt or x.dtype)
    raise CheckerError('_map_elems')


def _round_family(name, x):
    """floor / ceil / trunc / fix / rint / around on float64 data: exact integer-valued doubles."""
    core.CTX.assumed_used.add('numpy: np.%s is the exact mathematical rounding of a double (result integral double)' % name)
    if isinstance(x, (SNum, SBool, int, float)):
        # python scalar input -> numpy float64 scalar
        x = A.array(x)
        scalar = True
    else:
        x = asarray(x)
        scalar = x.ndim == 0
    dt = x.dtype
    if dt.kind in A.INT_KINDS or dt.kind == 'b':
        if name in ('around', 'rint', 'round'):
            if name == 'rint':
                return _finish_scalar(x.astype(A.F64), scalar)
            return _finish_scalar(x.copy(), scalar)
        # floor/ceil/trunc/fix of integer arrays: numpy >= 2.1 returns the integers unchanged (same dtype)
        if name == 'fix':
            return _finish_scalar(x.astype(A.F64), scalar)
        return _finish_scalar(x.copy(), scalar)
    if dt.kind == 'O':
        raise Undecided('np.%s on object arrays' % name)
    if dt != A.F64:
        raise Undecided('np.%s on %s' % (name, dt))
    def one(e):
        if isinstance(e, float):
            return float(getattr(_np, name)(e))
        r = e.t
        if e.dy is not None and e.dy[1] <= 0:
            return e
        fl = core.CTX.floor(r)
        if name == 'floor':
            k = fl
        elif name == 'ceil':
            k = z3.simplify(-core.CTX.floor(z3.simplify(-r)))
        elif name in ('trunc', 'fix'):
            ce = z3.simplify(-core.CTX.floor(z3.simplify(-r)))
            k = z3.simplify(z3.If(r >= 0, fl, ce))
        else:
            # round half to even: k0 = floor(r + 1/2); exact tie and k0 odd -> k0 - 1
            r2 = z3.simplify(r + z3.RealVal('1/2'))
            k0 = core.CTX.floor(r2)
            tie = (z3.ToReal(k0) == r2)
            odd = core.CTX.mod(k0, 2) == 1
            k = z3.simplify(z3.If(z3.And(tie, odd), k0 - 1, k0))
        return SNum.float_of_intterm(k, 0)
    el = [one(e) for e in x.elems]
    r = new_like(x.shape, el, A.F64)
    return _finish_scalar(r, scalar)


def _finish_scalar(a, scalar):
    if scalar and a.ndim == 0:
        if a.dtype.kind == 'O':
            return a.elems[0]
        return SGen(a.elems, _np.zeros((), dtype=int), a.dtype)
    return a


@_np_func('floor', True)
def floor(x, **kw): return _round_family('floor', x)
@_np_func('ceil', True)
def ceil(x, **kw):
    if isinstance(x, Log2Of):
        return x.ceil()
    if isinstance(x, SBase) and x.dtype.kind == 'O' and _b.any(isinstance(e, Log2Of) for e in x.elems):
        return new_like(x.shape, [e.ceil() for e in x.elems], A.F64) if not x.is_scalar else x.elems[0].ceil()
    return _round_family('ceil', x)
@_np_func('trunc', True)
def trunc(x, **kw): return _round_family('trunc', x)
@_np_func('fix')
def fix(x, **kw): return _round_family('fix', x)
@_np_func('rint', True)
def rint(x, **kw): return _round_family('rint', x)
@_np_func('around')
def around(x, decimals=0, **kw):
    if decimals != 0:
        raise Undecided('np.around with decimals')
    return _round_family('around', x)
@_np_func('round')
def round(x, decimals=0, **kw):
    if decimals != 0:
        raise Undecided('np.round with decimals')
    return _round_family('around', x)


@_np_func('absolute', True)
def absolute(x, **kw):
    if isinstance(x, (SNum,)):
        return _b.abs(x)
    return _b.abs(asarray(x)) if not isinstance(x, SGen) else _b.abs(x)
abs = absolute
_REG['abs'] = absolute


def _bin(name):
    def f(a, b, **kw):
        kw.pop('out', None)
        if kw:
            raise Undecided('np.%s kwargs' % name)
        if not isinstance(a, SBase):
            a = A.array(a) if isinstance(a, (list, tuple)) else a
        if not isinstance(a, SBase) and not isinstance(b, SBase):
            # two python scalars -> numpy scalar result
            a = _finish_scalar(A.array(a), True)
        r = A.binary(name, a, b)
        if r is NotImplemented:
            raise TypeError('np.%s: unsupported operands' % name)
        return r
    return f

for _n in ('add', 'subtract', 'multiply', 'true_divide', 'floor_divide', 'remainder', 'power', 'left_shift',
           'right_shift', 'bitwise_and', 'bitwise_or', 'bitwise_xor', 'less', 'less_equal', 'greater',
           'greater_equal', 'equal', 'not_equal'):
    globals()[_n] = NpFunc(_n, _bin(_n), True)
    _REG[_n] = globals()[_n]
divide = true_divide
mod = remainder
_REG['divide'] = divide
_REG['mod'] = mod


@_np_func('negative', True)
def negative(x, **kw): return -asarray(x)

@_np_func('conjugate', True)
def conjugate(x, **kw): raise Undecided('complex')
conj = conjugate


@_np_func('any')
def any(x, axis=None, **kw):
    return A.reduce_any(asarray(x), axis)

@_np_func('all')
def all(x, axis=None, **kw):
    return A.reduce_all(asarray(x), axis)

@_np_func('max')
def max(x, axis=None, **kw):
    kw = {k: v for k, v in kw.items() if v is not None}
    if kw:
        raise Undecided('np.max kwargs %s' % list(kw))
    return A.reduce_minmax(asarray(x), axis, True)
amax = max

@_np_func('min')
def min(x, axis=None, **kw):
    kw = {k: v for k, v in kw.items() if v is not None}
    if kw:
        raise Undecided('np.min kwargs %s' % list(kw))
    return A.reduce_minmax(asarray(x), axis, False)
amin = min

@_np_func('sum')
def sum(x, axis=None, dtype=None, **kw):
    kw = {k: v for k, v in kw.items() if v is not None}
    if kw:
        raise Undecided('np.sum kwargs %s' % list(kw))
    return A.reduce_sum(asarray(x), axis, dtype=dtype)

@_np_func('prod')
def prod(x, axis=None, **kw):
    kw = {k: v for k, v in kw.items() if v is not None}
    if kw:
        raise Undecided('np.prod kwargs %s' % list(kw))
    return A.reduce_prod(asarray(x), axis)

@_np_func('cumsum')
def cumsum(x, axis=None, **kw):
    kw = {k: v for k, v in kw.items() if v is not None}
    if kw:
        raise Undecided('np.cumsum kwargs')
    return A.cumulative(asarray(x), axis, mul=False)

@_np_func('cumprod')
def cumprod(x, axis=None, **kw):
    kw = {k: v for k, v in kw.items() if v is not None}
    if kw:
        raise Undecided('np.cumprod kwargs')
    return A.cumulative(asarray(x), axis, mul=True)

@_np_func('trace')
def trace(x, offset=0, axis1=0, axis2=1, **kw):
    kw = {k: v for k, v in kw.items() if v is not None}
    if kw:
        raise Undecided('np.trace kwargs')
    d = asarray(x).diagonal(offset, axis1, axis2)
    return A.reduce_sum(d, -1 if d.ndim > 1 else None)

@_np_func('diagonal')
def diagonal(x, offset=0, axis1=0, axis2=1):
    return asarray(x).diagonal(offset, axis1, axis2)

@_np_func('transpose')
def transpose(x, axes=None):
    a = asarray(x)
    return a.transpose() if axes is None else a.transpose(axes)

@_np_func('reshape')
def reshape(x, *a, **kw):
    if 'newshape' in kw:
        kw['shape'] = kw.pop('newshape')
    return asarray(x).reshape(*a, **kw)

@_np_func('ones_like')
def ones_like(x, **kw):
    a = asarray(x)
    one = 1.0 if a.dtype.kind == 'f' else 1
    return new_like(a.shape, [one] * a.size, a.dtype if a.dtype.kind != 'O' else A.OBJ)

@_np_func('nonzero')
def nonzero(x):
    raise Undecided('np.nonzero on symbolic data (data-dependent shape)')

@_np_func('sort')
def sort(x, axis=-1, **kw):
    """Sorting network semantics: compare-exchange with value-level ite (no forks)."""
    kw = {k: v for k, v in kw.items() if v is not None}
    if kw:
        raise Undecided('np.sort kwargs')
    a = asarray(x).copy()
    if axis is None:
        a = a.flatten(); axis = 0
    moved = _np.moveaxis(a.idx, axis, -1)
    rows = moved.reshape(-1, moved.shape[-1]) if moved.ndim > 0 else moved.reshape(1, 1)
    for row in rows:
        pos = row.tolist()
        n = len(pos)
        for i in range(n):
            for j in range(n - 1 - i):
                p, q = pos[j], pos[j + 1]
                u, v = a.store[p], a.store[q]
                c = (v < u)
                a.store[p] = A._ite_num(c, v, u)
                a.store[q] = A._ite_num(c, u, v)
    return a

@_np_func('dot')
def dot(x, y, **kw):
    kw = {k: v for k, v in kw.items() if v is not None}
    if kw:
        raise Undecided('np.dot kwargs')
    a, b = asarray(x), asarray(y)
    core.CTX.assumed_used.add('numpy: sum/cumsum/prod/cumprod/dot/trace compute the mathematical result, wrapped in the accumulator dtype')
    if a.dtype.kind == 'O' or b.dtype.kind == 'O':
        rdt = A.OBJ
    else:
        rdt = _np.result_type(a.dtype, b.dtype)
    if a.ndim == 0 or b.ndim == 0:
        return a * b
    def cast(e, sdt):
        return A.cast_elem(e, sdt, rdt, 'dot') if rdt.kind != 'O' else e
    def inner(u, v):
        acc = None
        for p, q in zip(u, v):
            t = cast(p, a.dtype) * cast(q, b.dtype)
            if rdt.kind in A.INT_KINDS: t = A.wrap_int(t, rdt, 'dot')
            acc = t if acc is None else acc + t
            if rdt.kind in A.INT_KINDS: acc = A.wrap_int(acc, rdt, 'dot')
        return acc
    if a.ndim == 1 and b.ndim == 1:
        if a.shape != b.shape:
            raise ValueError('shapes not aligned')
        r = inner(a.elems, b.elems)
        return r if rdt.kind == 'O' else SGen([r], _np.zeros((), dtype=int), rdt)
    if a.ndim == 2 and b.ndim == 2:
        if a.shape[1] != b.shape[0]: raise ValueError('shapes not aligned')
        res = [inner(a[i].elems, b[:, j].elems) for i in range(a.shape[0]) for j in range(b.shape[1])]
        return new_like((a.shape[0], b.shape[1]), res, rdt)
    if a.ndim == 2 and b.ndim == 1:
        if a.shape[1] != b.shape[0]: raise ValueError('shapes not aligned')
        res = [inner(a[i].elems, b.elems) for i in range(a.shape[0])]
        return new_like((a.shape[0],), res, rdt)
    if a.ndim == 1 and b.ndim == 2:
        if a.shape[0] != b.shape[0]: raise ValueError('shapes not aligned')
        res = [inner(a.elems, b[:, j].elems) for j in range(b.shape[1])]
        return new_like((b.shape[1],), res, rdt)
    raise Undecided('np.dot on >2-d arrays')

@_np_func('matmul', True)
def matmul(x, y, **kw):
    return dot.impl(x, y)

@_np_func('where')
def where(c, a=None, b=None):
    if a is None:
        raise Undecided('np.where single-argument form')
    ca = asarray(c)
    ka, va = A._classify(a)
    kb, vb = A._classify(b)
    if ka == 'arr' and kb == 'arr':
        rdt = A.OBJ if (va.dtype.kind == 'O' or vb.dtype.kind == 'O') else _np.result_type(va.dtype, vb.dtype)
    elif ka == 'arr':
        rdt = A._weak_result_dtype(va.dtype, vb)
    elif kb == 'arr':
        rdt = A._weak_result_dtype(vb.dtype, va)
    else:
        da, _ = A.elem_from_py(va); db, _ = A.elem_from_py(vb)
        rdt = _np.result_type(da, db)
    ia = _np.arange(va.size).reshape(va.shape) if ka == 'arr' else _np.zeros((), dtype=int)
    ib = _np.arange(vb.size).reshape(vb.shape) if kb == 'arr' else _np.zeros((), dtype=int)
    ic = _np.arange(ca.size).reshape(ca.shape)
    bc, ba, bb = _np.broadcast_arrays(ic, ia, ib)
    ce = ca.elems
    ae = va.elems if ka == 'arr' else [va]
    be = vb.elems if kb == 'arr' else [vb]
    res = []
    for i, j, k in zip(bc.ravel().tolist(), ba.ravel().tolist(), bb.ravel().tolist()):
        cond = ce[i]
        if not isinstance(cond, (bool, SBool)):
            cond = (cond != 0)
        x = ae[j]; y = be[k]
        if rdt.kind != 'O':
            x = A.cast_elem(x, va.dtype, rdt, 'where') if ka == 'arr' else _weak_cast(x, rdt)
            y = A.cast_elem(y, vb.dtype, rdt, 'where') if kb == 'arr' else _weak_cast(y, rdt)
        if rdt.kind == 'b':
            res.append(bor(band(cond, x), band(bnot(cond), y)))
        else:
            res.append(A._ite_num(cond, x, y))
    return new_like(bc.shape, res, rdt)


def _weak_cast(v, dt):
    if dt.kind == 'f':
        return core.to_float(v) if kind_of(v) == 'int' else v
    if dt.kind in A.INT_KINDS:
        A._check_pyint_fits(v, dt)
    return v


@_np_func('clip')
def clip(a, a_min=None, a_max=None, **kw):
    kw = {k: v for k, v in kw.items() if v is not None}
    if kw:
        raise Undecided('np.clip kwargs')
    x = asarray(a)
    core.CTX.assumed_used.add('numpy: np.clip(a, lo, hi) == minimum(maximum(a, lo), hi)')
    if x.dtype.kind == 'O':
        def one(e):
            r = e
            if a_min is not None:
                r = A._ite_num(r < a_min, a_min, r)      # maximum(r, lo)
            if a_max is not None:
                r = A._ite_num(r > a_max, a_max, r)      # minimum(r, hi)
            return r
        if x.ndim == 0:
            return one(x.elems[0])      # 0-d object ufunc results unwrap to the python object
        return new_like(x.shape, [one(e) for e in x.elems], A.OBJ)
    # numeric dtypes: promote like a ternary ufunc
    rdt = x.dtype
    for bnd in (a_min, a_max):
        if bnd is None:
            continue
        if isinstance(bnd, SBase):
            rdt = _np.result_type(rdt, bnd.dtype)
        else:
            rdt = A._weak_result_dtype(rdt, bnd)
            if rdt.kind in A.INT_KINDS and kind_of(bnd) == 'int':
                A._check_pyint_fits(bnd, rdt)
    def one(e):
        r = A.cast_elem(e, x.dtype, rdt, 'clip')
        if a_min is not None:
            lo = _weak_cast(a_min, rdt) if not isinstance(a_min, SBase) else a_min.elems[0]
            r = A._ite_num(r < lo, lo, r)
        if a_max is not None:
            hi = _weak_cast(a_max, rdt) if not isinstance(a_max, SBase) else a_max.elems[0]
            r = A._ite_num(r > hi, hi, r)
        return r
    return _finish_scalar(new_like(x.shape, [one(e) for e in x.elems], rdt), isinstance(a, SGen))


class Log2Of:
    """Opaque result of np.log2(x) for symbolic x > 0; only ceil() is modelled (bit length)."""
    def __init__(self, arg):
        self.arg = arg     # SNum (float with value > 0)
    def ceil(self):
        """bit-length contract; the value is made concrete per path (forks over the possible lengths)"""
        core.CTX.assumed_used.add('numpy: ceil(log2(x)) == n with 2^(n-1) < x <= 2^n for doubles x = m + 0.5, m < 2^52')
        x = zreal(self.arg)
        for k in range(-1, 66):
            lo = core.zreal(core.pow2(k - 1)); hi = core.zreal(core.pow2(k))
            if core.CTX.decide(z3.And(x > lo, x <= hi)):
                return float(k)
        raise Undecided('np.ceil(np.log2(x)) outside [2^-2, 2^65]')
    def __deepcopy__(self, memo):
        return self


@_np_func('log2', True)
def log2(x, **kw):
    if isinstance(x, SNum):
        pos = CTX_prove_positive(x)
        return Log2Of(x)
    a = asarray(x)
    el = []
    for e in a.elems:
        if isinstance(e, SNum):
            CTX_prove_positive(e)
            el.append(Log2Of(e))
        else:
            el.append(float(_np.log2(e)))
    if a.ndim == 0:
        return el[0] if isinstance(el[0], Log2Of) else SGen(el, _np.zeros((), dtype=int), A.F64)
    return new_like(a.shape, el, A.OBJ)   # container of opaque logs; only np.ceil / np.max accept it


def CTX_prove_positive(e):
    if not core.CTX.valid(zreal(e) > 0):
        raise Undecided('np.log2 of a possibly non-positive symbolic value')
    return True


@_np_func('binary_repr')
def binary_repr(num, width=None):
    from . import strs
    if isinstance(num, SBase):
        num = num.elems[0] if num.size == 1 else num
    return strs.np_binary_repr(num, width)

@_np_func('base_repr')
def base_repr(number, base=2, padding=0):
    from . import strs
    if isinstance(number, SBase):
        number = number.elems[0]
    return strs.np_base_repr(number, base, padding)


class vectorize:
    """np.vectorize: apply pyfunc per element (elements handed over as Python objects); the
    output dtype is taken from the result for the FIRST element, as NumPy does."""
    def __init__(self, pyfunc=None, otypes=None, **kw):
        if kw:
            raise Undecided('np.vectorize kwargs')
        self.pyfunc = pyfunc
        self.otypes = otypes
        self.__name__ = getattr(pyfunc, '__name__', 'vectorized')
        self.__doc__ = getattr(pyfunc, '__doc__', None)

    def __call__(self, *args, **kwargs):
        core.CTX.assumed_used.add('numpy: np.vectorize applies pyfunc elementwise on python objects; otypes from the first result')
        names = list(kwargs)
        allargs = list(args) + [kwargs[k] for k in names]
        arrs = [asarray(a) if not isinstance(a, (SBase,)) and a is not None else a for a in allargs]
        idxs = [(_np.arange(a.size).reshape(a.shape) if isinstance(a, SBase) else _np.zeros((), dtype=int)) for a in arrs]
        bs = _np.broadcast_arrays(*idxs)
        shp = bs[0].shape
        n = int(bs[0].size)
        if n == 0:
            raise ValueError('cannot call `vectorize` on size 0 inputs unless `otypes` is set')
        elems = [a.elems if isinstance(a, SBase) else [a] for a in arrs]
        flat = [b.ravel().tolist() for b in bs]
        outs = []
        for i in range(n):
            vals = [elems[k][flat[k][i]] for k in range(len(arrs))]
            pa = vals[:len(args)]
            pk = dict(zip(names, vals[len(args):]))
            r = self.pyfunc(*pa, **pk)
            outs.append(r)
        # dtype of the first result
        def info(r):
            if isinstance(r, SBase):
                if r.size != 1:
                    raise Undecided('vectorized function returning arrays')
                return r.dtype, r.elems[0]
            return A._leaf_info(r)
        d0, v0 = info(outs[0])
        if self.otypes is not None:
            d0 = A.norm_dtype(self.otypes[0])
        elif isinstance(v0, SNum) and v0.kc is not None:
            # merged int/float result decides the output dtype: fork on its kind
            if bool(SBool(v0.kc)):
                d0 = A.I64
            else:
                d0 = A.F64
        res = []
        for r in outs:
            d, v = info(r)
            if d0.kind == 'O':
                res.append(v)
                continue
            # NumPy: asanyarray(object_array_of_results, dtype=otype)
            if isinstance(v, SNum) and v.kc is not None:
                v2 = SNum(v.t, v.dy, v.kc)
                res.append(A.cast_elem(v2, A.OBJ, d0, 'vectorize-out'))
            else:
                res.append(A.cast_elem(v, A.OBJ if d.kind != 'O' else A.OBJ, d0, 'vectorize-out'))
        return new_like(shp, res, d0)


# ---- fallback: anything else from numpy -----------------------------------------------------------
def __getattr__(name):
    if name in _REG:
        return _REG[name]
    real = getattr(_np, name)          # AttributeError propagates like numpy's
    if callable(real) and not isinstance(real, type):
        f = NpFunc(name, None, isinstance(real, _np.ufunc))
        _REG[name] = f
        return f
    return real
