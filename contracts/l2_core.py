"""Layer 2 contracts: the storing chain of fxpmath/objects.py
   Fxp._get_conv_factor, Fxp._round, Fxp._overflow_action, Fxp.set_val (+ get_val read-back)."""
from fractions import Fraction
from fxpv.harness import Contract, contract
from specs.core import *
from contracts.common import *

MODES = [(r, o) for r in ROUNDINGS for o in OVERFLOWS]


def scalar_shapes(tier):
    return [(), (2,)] if tier == 'quick' else [(), (1,), (2,), (3,), (2, 2)]


# ==========================================================================================================
@contract
class ConvFactor(Contract):
    """_get_conv_factor(raw): 1 if raw else exactly 2^n_frac (the reciprocal being the exact double 2^-k
    for negative n_frac)."""
    name = 'objects:Fxp._get_conv_factor'
    layer = 2
    props = {'*': ['C01', 'C16']}

    def configs(self, tier):
        fr = range(-12, 70) if tier == 'quick' else range(-64, 300)
        for f in fr:
            for raw in (False, True):
                yield dict(n_frac=f, raw=raw)

    def run(self, cfg, P, inp):
        x = make_fxp(P, True, max(1, cfg['n_frac'] + 1), cfg['n_frac'])
        cf = x._get_conv_factor(cfg['raw'])
        return {'cf': cf, 'is_int': isinstance(cf, int)}

    def post(self, cfg, inp, obs):
        if obs['exc']:
            return {}
        want = 1 if cfg['raw'] else pow2(cfg['n_frac'])
        return {'value': eq(M(obs['cf']), want),
                'kind': obs['is_int'] == (cfg['raw'] or cfg['n_frac'] >= 0)}

    def stubs(self, P):
        def _get_conv_factor(self, raw=False):
            if raw:
                return 1
            return (1 << self.n_frac) if self.n_frac >= 0 else 1 / (1 << -self.n_frac)
        return {(P.Fxp, '_get_conv_factor'): _get_conv_factor}


# ==========================================================================================================
@contract
class Round(Contract):
    """_round(val, method): float64 data are rounded elementwise by the configured rule (result an
    integral double); integer and object data are returned unchanged."""
    name = 'objects:Fxp._round'
    layer = 2
    props = {'*': ['C01', 'C05']}

    def configs(self, tier):
        for rule in ROUNDINGS:
            for carrier in ('f64', 'i64', 'u64', 'objint', 'objfloat', 'pyint', 'f64scalar'):
                shapes = scalar_shapes(tier) if carrier not in ('pyint', 'f64scalar') else [()]
                for shape in shapes:
                    yield dict(rule=rule, carrier=carrier, shape=list(shape))

    def inputs(self, cfg, D):
        n = nelem(cfg['shape'])
        c = cfg['carrier']
        if c in ('f64', 'f64scalar', 'objfloat'):
            return {'v': [D.real('v%d' % i) for i in range(n)]}          # any real (any finite double)
        if c == 'u64':
            return {'v': [D.int('v%d' % i, 0, 2**64 - 1) for i in range(n)]}
        if c == 'i64':
            return {'v': [D.int('v%d' % i, -2**63, 2**63 - 1) for i in range(n)]}
        return {'v': [D.int('v%d' % i) for i in range(n)]}

    def run(self, cfg, P, inp):
        x = make_fxp(P, True, 8, 2)
        c = cfg['carrier']
        if c == 'pyint':
            val = inp['v'][0]
        elif c == 'f64scalar':
            val = P.np.array(inp['v'][0], dtype='float64') * 1       # numpy float64 scalar
        else:
            dt = {'f64': 'float64', 'i64': 'int64', 'u64': 'uint64', 'objint': object, 'objfloat': object}[c]
            val = P.arr(inp['v'], dtype=dt, shape=tuple(cfg['shape']))
        r = x._round(val, method=cfg['rule'])
        return {'r': r, 'same_object': r is val}

    def post(self, cfg, inp, obs):
        if obs['exc']:
            return {}
        out = {}
        rs = elems(obs['r'])
        isfloat = cfg['carrier'] in ('f64', 'f64scalar', 'objfloat')
        out['count'] = len(rs) == len(inp['v'])
        for i, (v, r) in enumerate(zip(inp['v'], rs)):
            v, r = M(v), M(r)
            if isfloat:
                out['rounded[%d]' % i] = eq(r, ROUND(v, cfg['rule']))
            else:
                out['identity[%d]' % i] = eq(r, v)
        if not isfloat:
            out['unchanged_object'] = obs['same_object']
        if cfg['carrier'] == 'objfloat':
            out['object_stays_object'] = obs['r'].dtype == object if hasattr(obs['r'], 'dtype') else True
        return out

    def stubs(self, P):
        def _round(self, val, method='floor'):
            if isinstance(val, int) or P.np.issubdtype(P.np.array(val).dtype, P.np.integer):
                return val
            a = P.np.asarray(val)
            if a.dtype == object:
                e0 = elems(a)[0] if a.size else 0
                from fxpv.core import kind_of, SNum as _SN, SBool as _SB
                isfl = isinstance(e0, float) or (isinstance(e0, _SN) and kind_of(e0) != 'int')
                if not isfl:
                    return val
                core_assert(method in ROUNDINGS, '_round.pre: method is one of the five rules')
                el = [as_float(unM(ROUND(M(e), method))) for e in elems(a)]
                return P.arr(el, dtype=object, shape=a.shape)
            core_assert(method in ROUNDINGS, '_round.pre: method is one of the five rules')
            el = [as_float(unM(ROUND(M(e), method))) for e in elems(a)]
            r = P.arr(el, dtype='float64', shape=a.shape)
            return r
        return {(P.Fxp, '_round'): _round}


def core_assert(cond, label):
    """precondition of a stubbed callee: an obligation at the call site (attributed to the caller)"""
    from fxpv import core
    if core.CTX is not None:
        core.CTX.prove('call-pre:' + label, cond, kind='clause')
    else:
        assert cond, label


# ==========================================================================================================
@contract
class OverflowAction(Contract):
    """_overflow_action(new_val, lo, hi): result = OVF(new_val) elementwise under the configured mode;
    overflow' = overflow or ANY(new_val > hi); underflow' = underflow or ANY(new_val < lo); the
    callbacks on_status_overflow / on_status_underflow run once each, exactly for the conditions that
    occurred; nothing else of self changes."""
    name = 'objects:Fxp._overflow_action'
    layer = 2
    uses = ('utils:wrap', 'utils:clip')
    props = {'*': ['C01'], 'value': ['C01', 'C02', 'C03', 'C18'], 'flag_overflow': ['C04', 'C18'], 'flag_underflow': ['C04', 'C18'],
             'log': ['C04'], 'frame': ['C04', 'C20']}

    def configs(self, tier):
        fm = [(True, 1), (True, 2), (True, 8), (False, 1), (False, 8), (True, 52), (False, 52), (True, 31), (False, 32)]
        if tier == 'thorough':
            fm = [(s, n) for s in (True, False) for n in range(1, 53)]
        wide = [(True, 64), (False, 64), (True, 65), (False, 128), (True, 256)]
        for signed, n in fm:
            for mode in OVERFLOWS:
                for carrier in ('f64', 'i64', 'f64big') + (('f64huge',) if mode == 'saturate' else ()):
                    for shape in scalar_shapes(tier):
                        yield dict(signed=signed, n_word=n, mode=mode, carrier=carrier, shape=list(shape))
        for signed, n in wide:
            for mode in OVERFLOWS:
                for carrier in ('objint',) + (('objfloat',) if mode == 'saturate' else ()):
                    for shape in ((), (2,)):
                        yield dict(signed=signed, n_word=n, mode=mode, carrier=carrier, shape=list(shape))

    def inputs(self, cfg, D):
        n = nelem(cfg['shape'])
        c = cfg['carrier']
        if c == 'f64':
            v = [D.int('r%d' % i, -2**53, 2**53) for i in range(n)]     # integral doubles (output of _round)
        elif c == 'f64big':
            # integral doubles beyond 2^53 (multiples of 2^10) up to the core-domain bound 2^62
            v = [D.dyadic('r%d' % i, -10, -2**53 + 1, 2**53 - 1) for i in range(n)]
        elif c == 'f64huge':
            # any finite magnitude (saturate): multiples of 2^900
            v = [D.dyadic('r%d' % i, -900) for i in range(n)]
        elif c == 'i64':
            v = [D.int('r%d' % i, -2**63, 2**63 - 1) for i in range(n)]
        elif c == 'u64':
            v = [D.int('r%d' % i, 0, 2**64 - 1) for i in range(n)]
        elif c == 'objint':
            v = [D.int('r%d' % i) for i in range(n)]
        else:
            v = [D.real('r%d' % i) for i in range(n)]
        return {'r': v, 'st': sym_status(D)}

    def run(self, cfg, P, inp):
        cb = RecCallback()
        x = make_fxp(P, cfg['signed'], cfg['n_word'], 0, cfg={'overflow': cfg['mode']}, status=inp['st'], callbacks=[cb])
        before = dict(x.__dict__)
        dt = {'f64': 'float64', 'f64big': 'float64', 'f64huge': 'float64', 'i64': 'int64', 'u64': 'uint64', 'objint': object, 'objfloat': object}[cfg['carrier']]
        vals = inp['r']
        new_val = P.arr(vals, dtype=dt, shape=tuple(cfg['shape']))
        lo, hi = range_of(cfg['signed'], cfg['n_word'])
        r = x._overflow_action(new_val, lo, hi)
        frame_ok = all(x.__dict__[k] is before[k] for k in before if k not in ('status',)) and set(x.__dict__) == set(before)
        return {'r_vals': [as_real(e) for e in elems(r)], 'r_shape': list(shape_of(r)), 'status': dict(x.status), 'log': sorted(cb.log), 'frame_ok': frame_ok}

    def post(self, cfg, inp, obs):
        if obs['exc']:
            return {}
        signed, n, mode = cfg['signed'], cfg['n_word'], cfg['mode']
        lo, hi = range_of(signed, n)
        out = {'frame': obs['frame_ok'], 'shape': obs['r_shape'] == cfg['shape']}
        rs = [M(r) if cfg['carrier'] == 'objfloat' else M(int_value(r)) for r in inp['r']]
        for i, (r, o) in enumerate(zip(rs, obs['r_vals'])):
            if cfg['carrier'] == 'objfloat':
                # un-rounded floats are only ever saturated (|v| >= 2^64 path): clamp, value kept otherwise
                out['value[%d]' % i] = eq(M(o), ite(r > hi, hi, ite(r < lo, lo, r)))
            else:
                out['value[%d]' % i] = eq(M(o), OVF(r, signed, n, mode))
        any_hi = Or(*[r > hi for r in rs])
        any_lo = Or(*[r < lo for r in rs])
        st0, st1 = inp['st'], obs['status']
        out['flag_overflow'] = Iff(B(st1['overflow']), Or(B(st0['overflow']), any_hi))
        out['flag_underflow'] = Iff(B(st1['underflow']), Or(B(st0['underflow']), any_lo))
        out['flag_others'] = And(Iff(B(st1['inaccuracy']), B(st0['inaccuracy'])), st1['extended_prec'] == (n >= 64),
                                 set(st1) == {'overflow', 'underflow', 'inaccuracy', 'extended_prec'})
        log = obs['log']
        # the log is concrete per path: each notification at most once, exactly for what occurred (no order is demanded)
        out['log'] = And(Iff('overflow' in log, any_hi), Iff('underflow' in log, any_lo),
                         sorted(log) == sorted(set(log)), set(log) <= {'overflow', 'underflow'})
        return out

    def stubs(self, P):
        def _overflow_action(self, new_val, val_min, val_max):
            lo, hi = range_of(self.signed, self.n_word)
            core_assert(val_min == lo and val_max == hi, '_overflow_action.pre: bounds are the format range')
            core_assert(self.config.overflow in OVERFLOWS, '_overflow_action.pre: valid overflow mode')
            a = P.np.asarray(new_val)
            rs = [M(int_value(e)) for e in elems(a)]
            if a.dtype != object:
                # verified domain of the contract: integral values; beyond 2^62 only under saturate
                core_assert(unM(And(*[is_int(r) for r in rs])), '_overflow_action.pre: integral values (output of _round)')
                if self.config.overflow == 'wrap' and a.dtype.kind == 'f':
                    core_assert(unM(And(*[And(r < 2**63, r > -2**63) for r in rs])), '_overflow_action.pre: |value| < 2^63 for float data under wrap (int64 cast)')
            any_hi = unM(Or(*[r > hi for r in rs])); any_lo = unM(Or(*[r < lo for r in rs]))
            # flags and callbacks (exactly as the contract's ensures; forks on what occurred)
            if any_hi:
                self.status['overflow'] = True
                self._run_callbacks('on_status_overflow')
            if any_lo:
                self.status['underflow'] = True
                self._run_callbacks('on_status_underflow')
            mode = self.config.overflow
            if a.dtype == object and mode == 'saturate':
                el = [unM(ite(r > hi, hi, ite(r < lo, lo, r))) for r in rs]
                return P.arr(el, dtype=object, shape=a.shape)
            el = [unM(OVF(r, self.signed, self.n_word, mode)) for r in rs]
            if self.n_word >= 64:
                return P.arr(el, dtype=object, shape=a.shape)
            if a.dtype.kind == 'f':
                return P.arr([as_float(e) for e in el], dtype='float64', shape=a.shape)
            return P.arr(el, dtype='int64', shape=a.shape)
        return {(P.Fxp, '_overflow_action'): _overflow_action}


# ==========================================================================================================
def rel_round(c, r, rule):
    """C05 direction/error relations between the stored code c and the exact scaled input r = v*2^n_frac,
    written WITHOUT the reference quantizer."""
    half = Fraction(1, 2)
    d = c - r
    out = {'err_lt_lsb': And(d < 1, d > -1)}
    if rule == 'floor':
        out['dir'] = And(c <= r, r < c + 1)
    elif rule == 'ceil':
        out['dir'] = And(c - 1 < r, r <= c)
    elif rule in ('trunc', 'fix'):
        out['dir'] = And(Implies(r >= 0, And(c >= 0, c <= r, r < c + 1)),
                         Implies(r <= 0, And(c <= 0, c >= r, r > c - 1)))
    elif rule == 'around':
        out['dir'] = And(d <= half, d >= -half,
                         Implies(Or(eq(d, half), eq(d, -half)), eq(mod(c, 2), 0)))
    return out


def expected_vdtype_is_float(cfg):
    return None


@contract
class SetVal(Contract):
    """Fxp.set_val(val, raw, vdtype, index) on an arbitrary well-formed object:
       code_i = OVF(ROUND(v_i * 2^n_frac)) (raw: OVF(ROUND(v_i))); flags OR-in exactly their condition;
       callbacks once per write in the order overflow, underflow, inaccuracy, value_change; codes in range;
       read-back = code * 2^-n_frac; with index=i only element i changes; format metadata untouched."""
    name = 'objects:Fxp.set_val'
    primary = ['C01', 'C03', 'C04', 'C05']
    secondary_stride = 5
    layer = 3
    uses = ('utils:wrap', 'utils:clip', 'objects:Fxp._get_conv_factor', 'objects:Fxp._round', 'objects:Fxp._overflow_action')
    props = {'code_eq_Q': ['C01', 'C03', 'C10'], 'in_range': ['C02'], 'readback': ['C01', 'C16'],
             'flag_overflow': ['C04'], 'flag_underflow': ['C04'], 'flag_inaccuracy': ['C04'], 'log': ['C04'],
             'dir': ['C05'], 'err_lt_lsb': ['C05'], 'idem_code': ['C05'], 'idem_flags': ['C05'], 'idem_log': ['C05'],
             'frame': ['C02', 'C20'], 'val_dtype': ['C02'], 'shape': ['C10', 'C01'], 'others_unchanged': ['C01'],
             'dtype_str': ['C02'], 'no_exception': ['C01'], 'returns_self': ['C01']}

    def formats(self, tier):
        if tier == 'quick':
            return core_formats('quick')
        return core_formats('thorough')

    def configs(self, tier):
        fm = self.formats(tier)
        small = [(s, n, f) for (s, n, f) in core_formats('quick') if n in (1, 3, 8, 52)]
        if tier == 'quick':
            small = [(s, n, f) for (s, n, f) in small if f in (-8, 0, n // 2, n + 8)][::2] + [(True, 8, 2), (False, 8, 3)]
        for (signed, n, f) in fm:
            for (rule, mode) in MODES:
                yield dict(signed=signed, n_word=n, n_frac=f, rule=rule, mode=mode, carrier='pyfloat', shape=[], raw=False, index=None)
                yield dict(signed=signed, n_word=n, n_frac=f, rule=rule, mode=mode, carrier='f64', shape=[2], raw=False, index=None)
        for (signed, n, f) in small:
            for (rule, mode) in MODES:
                for carrier, shape in (('pyint', []), ('i64', [2]), ('f64', [3]), ('f64', [2, 2]), ('list', [2]), ('code', []), ('code', [2])):
                    yield dict(signed=signed, n_word=n, n_frac=f, rule=rule, mode=mode, carrier=carrier, shape=shape, raw=False, index=None)
                yield dict(signed=signed, n_word=n, n_frac=f, rule=rule, mode=mode, carrier='pyint', shape=[], raw=True, index=None)
                yield dict(signed=signed, n_word=n, n_frac=f, rule=rule, mode=mode, carrier='i64', shape=[2], raw=True, index=None)
                yield dict(signed=signed, n_word=n, n_frac=f, rule=rule, mode=mode, carrier='pyfloat', shape=[], raw=False, index=1)
                yield dict(signed=signed, n_word=n, n_frac=f, rule=rule, mode=mode, carrier='pyfloat', shape=[], raw=True, index=None)
                if mode == 'saturate' and f >= 0:
                    # float inputs of ANY finite magnitude under saturate (|v * 2^n_frac| <= DBL_MAX)
                    yield dict(signed=signed, n_word=n, n_frac=f, rule=rule, mode=mode, carrier='bigfloat', shape=[], raw=False, index=None)
                    yield dict(signed=signed, n_word=n, n_frac=f, rule=rule, mode=mode, carrier='bigf64', shape=[2], raw=False, index=None)

    def inputs(self, cfg, D):
        n = nelem(cfg['shape'])
        f = cfg['n_frac']
        c = cfg['carrier']
        lim = min(Fraction(2**53), Fraction(2**62) * pow2(-f)) if not cfg['raw'] else Fraction(2**53)
        if c in ('bigfloat', 'bigf64'):
            big = Fraction(int((2**53 - 1) * 2**971)) * pow2(-f) / 2
            v = [D.real('v%d' % i, -big, big) for i in range(n)]
        elif c in ('pyfloat', 'f64', 'list'):
            v = [D.real('v%d' % i, -lim, lim, True, True) for i in range(n)]
        elif c in ('pyint', 'i64'):
            li = int(lim) if lim == int(lim) else int(lim) + 1
            v = [D.int('v%d' % i, -li + 1, li - 1) for i in range(n)]
        else:   # 'code': a value representable in the format, v = c * 2^-f
            cs = codes_in(D, 'c', n, cfg['signed'], cfg['n_word'])
            v = [float_of_code(x, f) for x in cs]
            return {'v': v, 'codes': cs, 'st': sym_status(D), 'old': codes_in(D, 'o', 3, cfg['signed'], cfg['n_word'])}
        return {'v': v, 'st': sym_status(D), 'old': codes_in(D, 'o', 3, cfg['signed'], cfg['n_word'])}

    def run(self, cfg, P, inp):
        cb = RecCallback()
        pre_shape = (3,) if cfg['index'] is not None else ()
        old = inp['old'][:nelem(pre_shape)]
        x = make_fxp(P, cfg['signed'], cfg['n_word'], cfg['n_frac'], codes=old, shape=pre_shape,
                     cfg={'rounding': cfg['rule'], 'overflow': cfg['mode']}, status=inp['st'], callbacks=[cb], vdtype=float)
        before = dict(x.__dict__)
        cfg_before = dict(x.config.__dict__)
        c = cfg['carrier']
        v = inp['v']
        if c in ('pyfloat', 'pyint', 'bigfloat') or (c == 'code' and cfg['shape'] == []):
            val = v[0]
        elif c == 'list':
            val = list(v)
        else:
            val = P.arr(v, dtype={'f64': 'float64', 'i64': 'int64', 'code': 'float64', 'bigf64': 'float64'}[c], shape=tuple(cfg['shape']))
        kw = {}
        if cfg['raw']: kw['raw'] = True
        if cfg['index'] is not None: kw['index'] = cfg['index']
        r = x.set_val(val, **kw)
        frame_ok = all(x.__dict__[k] is before[k] for k in before if k not in ('val', 'real', 'imag', 'vdtype', '_dtype', 'scaled', 'status')) \
            and set(x.__dict__) == set(before) and x.config.__dict__ == cfg_before and x.status is before['status']
        o = obs_fxp(x)
        o.update(getval=x.get_val(), log=sorted(cb.log), frame_ok=frame_ok, returns_self=r is x)
        return o

    def post(self, cfg, inp, obs):
        if obs['exc']:
            return {}
        signed, n, f, rule, mode, raw = cfg['signed'], cfg['n_word'], cfg['n_frac'], cfg['rule'], cfg['mode'], cfg['raw']
        lo, hi = range_of(signed, n)
        vs = [M(v) for v in inp['v']]
        codes = [M(c) for c in elems(obs['val'])]
        gv = [M(g) for g in elems(obs['getval'])]
        huge = Or(*[Or(v >= 2**64, v < -2**64) for v in vs]) if cfg['carrier'] in ('bigfloat', 'bigf64') else False
        out = {'frame': obs['frame_ok'], 'returns_self': obs['returns_self'],
               'val_dtype': Iff(obs['val'].dtype == object, huge) if cfg['carrier'] in ('bigfloat', 'bigf64') else obs['val'].dtype == store_dtype(signed, n),
               'dtype_str': obs['dtype'] == fmt_str(signed, n, f)}
        idx = cfg['index']
        if idx is None:
            out['shape'] = list(obs['val'].shape) == cfg['shape']
            written = list(range(len(codes)))
        else:
            out['shape'] = list(obs['val'].shape) == [3]
            written = [idx]
            olds = [M(o) for o in inp['old']]
            out['others_unchanged'] = And(*[eq(codes[j], olds[j]) for j in range(3) if j != idx])
        k = 0 if raw else f
        rs = [scale2(v, k) for v in vs]                       # exact scaled inputs
        Rs = [ROUND(r, rule) for r in rs]                      # rounded, before overflow handling
        for j, i in enumerate(written):
            c = codes[i]
            out['code_eq_Q[%d]' % j] = eq(c, OVF(Rs[j], signed, n, mode))
            out['in_range[%d]' % j] = And(c >= lo, c <= hi)
            out['readback[%d]' % j] = eq(gv[i], scale2(c, -f))
            # C05 relations, oracle-free, for inputs inside the representable span
            inside = And(rs[j] >= lo, rs[j] <= hi)
            for nm, cl in rel_round(c, rs[j], rule).items():
                out['%s[%d]' % (nm, j)] = Implies(inside, cl)
        any_hi = Or(*[R > hi for R in Rs])
        any_lo = Or(*[R < lo for R in Rs])
        inexact = Or(*[Not(eq(scale2(codes[i], -k), vs[j])) for j, i in enumerate(written)])
        st0, st1 = inp['st'], obs['status']
        out['flag_overflow'] = Iff(B(st1['overflow']), Or(B(st0['overflow']), any_hi))
        out['flag_underflow'] = Iff(B(st1['underflow']), Or(B(st0['underflow']), any_lo))
        out['flag_inaccuracy'] = Iff(B(st1['inaccuracy']), Or(B(st0['inaccuracy']), inexact))
        log = obs['log']
        # once per write, exactly for the conditions that occurred, plus one value-change notification (order free)
        out['log'] = And(sorted(log) == sorted(set(log)), set(log) <= {'overflow', 'underflow', 'inaccuracy', 'value_change'},
                         'value_change' in log, Iff('overflow' in log, any_hi),
                         Iff('underflow' in log, any_lo), Iff('inaccuracy' in log, inexact))
        if cfg['carrier'] == 'code':
            cs = [M(c) for c in inp['codes']]
            out['idem_code'] = And(*[eq(codes[i], cs[i]) for i in range(len(cs))])
            out['idem_flags'] = And(Iff(B(st1['overflow']), B(st0['overflow'])), Iff(B(st1['underflow']), B(st0['underflow'])),
                                    Iff(B(st1['inaccuracy']), B(st0['inaccuracy'])))
            out['idem_log'] = log == ['value_change']      # nothing but the value-change notification
        return out


# ==========================================================================================================
@contract
class Monotone(Contract):
    """Product run (C05 monotonicity, oracle-free): the real set_val is executed on two inputs v1 <= v2 in one
    exploration; under saturate the stored codes satisfy code1 <= code2."""
    name = 'lemma:C05.monotone'
    layer = 6
    uses = ('utils:wrap', 'utils:clip', 'objects:Fxp._get_conv_factor', 'objects:Fxp._round', 'objects:Fxp._overflow_action')
    props = {'*': ['C05']}

    def configs(self, tier):
        fm = [(s, n, f) for (s, n, f) in core_formats('quick')]
        if tier == 'quick':
            fm = fm[::3]
        for (signed, n, f) in fm:
            for rule in ROUNDINGS:
                yield dict(signed=signed, n_word=n, n_frac=f, rule=rule)

    def inputs(self, cfg, D):
        f = cfg['n_frac']
        lim = min(Fraction(2**53), Fraction(2**62) * pow2(-f))
        v1 = D.real('v1', -lim, lim, True, True)
        v2 = D.real('v2', -lim, lim, True, True)
        D.assume(M(v1) <= M(v2))
        return {'v1': v1, 'v2': v2}

    def run(self, cfg, P, inp):
        c = {'rounding': cfg['rule'], 'overflow': 'saturate'}
        x1 = make_fxp(P, cfg['signed'], cfg['n_word'], cfg['n_frac'], codes=[0], shape=(), cfg=c, vdtype=float)
        x2 = make_fxp(P, cfg['signed'], cfg['n_word'], cfg['n_frac'], codes=[0], shape=(), cfg=c, vdtype=float)
        x1.set_val(inp['v1']); x2.set_val(inp['v2'])
        return {'c1': x1.val, 'c2': x2.val}

    def post(self, cfg, inp, obs):
        if obs['exc']:
            return {}
        return {'monotone': M(elems(obs['c1'])[0]) <= M(elems(obs['c2'])[0])}


@contract
class QSanity(Contract):
    """Spec lemmas guarding the reference quantizer Q itself (no library code involved): idempotent on
    representable values, within one LSB when not overflowing, monotone under saturate, wrap is the identity
    on in-range values and invariant under shifts by the modulus."""
    name = 'lemma:Q.sanity'
    layer = 0
    props = {'*': ['C05'], 'wrap_period': ['C03'], 'idempotent_wrap': ['C03', 'C05']}

    def configs(self, tier):
        fm = [(s, n, f) for (s, n, f) in core_formats('quick') if n <= (8 if tier == 'quick' else 32)]
        for (signed, n, f) in fm:
            for rule in ROUNDINGS:
                yield dict(signed=signed, n_word=n, n_frac=f, rule=rule)

    def inputs(self, cfg, D):
        n = cfg['n_word']
        lo, hi = range_of(cfg['signed'], n)
        span = 1 << (n + 2)
        # r, t: exact scaled inputs v*2^n_frac (any real); c: a code; k: a number of modulus periods
        return {'r': D.real('r', -span, span), 't': D.real('t', -span, span), 'c': D.int('c', lo, hi), 'k': D.int('k', -3, 3)}

    def run(self, cfg, P, inp):
        return {}

    def post(self, cfg, inp, obs):
        s, n, rule = cfg['signed'], cfg['n_word'], cfg['rule']
        lo, hi = range_of(s, n)
        r, t, c, k = M(inp['r']), M(inp['t']), M(inp['c']), M(inp['k'])
        qs = lambda x: OVF(ROUND(x, rule), s, n, 'saturate')
        qw = lambda x: OVF(ROUND(x, rule), s, n, 'wrap')
        shifted = r + k * (1 << n)
        # rounding toward zero is translation invariant only while the sign is kept
        same_side = Or(And(r >= 0, shifted >= 0), And(r <= 0, shifted <= 0)) if rule in ('trunc', 'fix') else True
        return {'idempotent_sat': eq(qs(c), c), 'idempotent_wrap': eq(qw(c), c),
                'within_lsb': Implies(And(r >= lo, r <= hi), And(qs(r) - r < 1, r - qs(r) < 1)),
                'monotone_sat': Implies(r <= t, qs(r) <= qs(t)),
                'in_range': And(qs(r) >= lo, qs(r) <= hi, qw(r) >= lo, qw(r) <= hi),
                'wrap_period': Implies(same_side, eq(qw(shifted), qw(r)))}


# ==========================================================================================================
@contract
class WideStore(Contract):
    """Extended precision (n_word >= 64): a Python integer of ANY size given as a code (raw=True) or as an
    integer value is stored bit-exactly when in range and saturated / wrapped exactly otherwise, with exact
    overflow / underflow flags, object storage, and status['extended_prec'] set."""
    name = 'objects:Fxp.set_val[wide]'
    layer = 4
    uses = ('utils:wrap', 'utils:clip', 'objects:Fxp._get_conv_factor', 'objects:Fxp._round', 'objects:Fxp._overflow_action')
    props = {'*': ['C18'], 'code': ['C18', 'C03', 'C19'], 'in_range': ['C18', 'C02']}

    def configs(self, tier):
        words = (64, 65, 128, 256) if tier == 'quick' else (64, 65, 66, 72, 96, 127, 128, 129, 200, 256)
        for n in words:
            for signed in (True, False):
                for f in sorted({0, 1, n // 2, n - 1, n}) if tier == 'thorough' else (0, n // 2, n):
                    for mode in OVERFLOWS:
                        for route in ('ctor_raw', 'ctor_value', 'set_val_raw', 'call_value', 'setitem_raw', 'ctor_raw_array', 'ctor_like', 'ctor_template'):
                            yield dict(signed=signed, n_word=n, n_frac=f, mode=mode, route=route)
                        if f == 0:
                            # a shallow copy (shared status record) was resized to a narrow word first: the choice of the
                            # Python-int storage must follow the word length of THIS object, not a shared indicator
                            yield dict(signed=signed, n_word=n, n_frac=f, mode=mode, route='set_val_raw_after_copy_resize')
            if n == 64:      # an inferred word never exceeds the configured maximum (64)
                for signed in (True, False):
                    yield dict(signed=signed, n_word=n, n_frac=None, mode='saturate', route='nfrac_omitted')
        for n in (63, 62, 52):      # the indicator is not set below 64 bits
            yield dict(signed=True, n_word=n, n_frac=0, mode='saturate', route='ctor_raw')

    def inputs(self, cfg, D):
        if cfg['n_word'] < 64:
            return {'c': D.int('c', -2**61, 2**61), 'st': sym_status(D)}
        if cfg['route'] == 'ctor_raw_array':
            cs = [D.int('c'), D.int('c1')]
            pass  # (mix of int64- and uint64-range list elements: exact since fix F29)
            return {'c': cs[0], 'c1': cs[1], 'st': sym_status(D)}
        return {'c': D.int('c'), 'st': sym_status(D)}

    def run(self, cfg, P, inp):
        s, n, f, mode, route = cfg['signed'], cfg['n_word'], cfg['n_frac'], cfg['mode'], cfg['route']
        c = inp['c']
        if route == 'ctor_raw':
            x = P.Fxp(c, s, n, f, raw=True, overflow=mode)
        elif route == 'ctor_raw_array':
            x = P.Fxp([inp['c1'], c], s, n, f, raw=True, overflow=mode, rounding='around')
        elif route == 'ctor_like':
            t = make_fxp(P, s, n, f, codes=[0], shape=(), cfg={'overflow': mode}, vdtype=float)
            x = P.Fxp(c, like=t, raw=True)
        elif route == 'ctor_template':
            t = make_fxp(P, s, n, f, codes=[0], shape=(), cfg={'overflow': mode}, vdtype=float)
            x = P.Fxp(c, template=t, raw=True)
        elif route == 'nfrac_omitted':
            x = P.Fxp(None, s, n)
            return obs_fxp(x)
        elif route == 'ctor_value':
            x = P.Fxp(c, s, n, f, overflow=mode)
        else:
            shape = (2,) if route == 'setitem_raw' else ()
            x = make_fxp(P, s, n, f, codes=[0] * nelem(shape), shape=shape, cfg={'overflow': mode}, status=inp['st'], vdtype=float)
            if route == 'set_val_raw_after_copy_resize':
                w = x.copy(); w.resize(n_word=16)
                x.set_val(c, raw=True)
            elif route == 'set_val_raw':
                x.set_val(c, raw=True)
            elif route == 'call_value':
                x(c)
            else:
                x.set_val(c, raw=True, index=1)
        return obs_fxp(x)

    def post(self, cfg, inp, obs):
        if obs['exc']:
            return {}
        s, n, f, mode, route = cfg['signed'], cfg['n_word'], cfg['n_frac'], cfg['mode'], cfg['route']
        lo, hi = range_of(s, n)
        st = obs['status']
        if route == 'nfrac_omitted':
            return {'extended_prec': st['extended_prec'] == (n >= 64), 'word': obs['n_word'] == n}
        c = M(inp['c'])
        R = c if route in ('ctor_raw', 'set_val_raw', 'setitem_raw', 'ctor_raw_array', 'ctor_like', 'ctor_template', 'set_val_raw_after_copy_resize') else scale2(c, f)
        codes = [M(v) for v in elems(obs['val'])]
        z = codes[-1]
        fresh = route in ('ctor_raw', 'ctor_value', 'ctor_like', 'ctor_template', 'ctor_raw_array')
        if route == 'ctor_raw_array':
            c1 = M(inp['c1'])
            extra = {'code_first': eq(codes[0], OVF(c1, s, n, mode)),
                     'flag_overflow': Iff(B(st['overflow']), Or(R > hi, c1 > hi)), 'flag_underflow': Iff(B(st['underflow']), Or(R < lo, c1 < lo))}
        else:
            extra = {}
        o0 = (lambda k: False) if fresh else (lambda k: B(inp['st'][k]))
        out = {'code': eq(z, OVF(R, s, n, mode)), 'in_range': And(z >= lo, z <= hi),
               'flag_overflow': Iff(B(st['overflow']), Or(o0('overflow'), R > hi)),
               'flag_underflow': Iff(B(st['underflow']), Or(o0('underflow'), R < lo)),
               'storage': (obs['val'].dtype == object) == (n >= 64),
               'extended_prec': st['extended_prec'] == (n >= 64),
               'format': And(obs['n_word'] == n, obs['n_frac'] == f, obs['dtype'] == fmt_str(s, n, f))}
        if route == 'setitem_raw':
            out['other_unchanged'] = eq(codes[0], 0)
        if route == 'set_val_raw_after_copy_resize':
            # the shallow copy shares the status record, so its resize() rewrote the indicator and the flags there: only codes and storage are claimed
            for k in ('extended_prec', 'flag_overflow', 'flag_underflow'):
                out.pop(k)
        out.update(extra)
        return out



# ==========================================================================================================
@contract
class BigIntStore(Contract):
    """Storing a Python integer of ANY size into a format of 1..52 bits follows C01 exactly (constructor,
    call, set_val, indexed assignment): code = OVERFLOW(v * 2^n_frac), flags exact; in particular under
    saturate the bound on the input's own side is stored.  No intermediate may be reduced modulo 2^64."""
    name = 'objects:Fxp.set_val[python-int of any size]'
    layer = 4
    uses = ('utils:wrap', 'utils:clip', 'objects:Fxp._get_conv_factor', 'objects:Fxp._round', 'objects:Fxp._overflow_action')
    props = {'*': ['C19'], 'code_eq_Q': ['C19', 'C02'], 'own_side': ['C02', 'C19']}

    def configs(self, tier):
        fm = [(True, 8, 4), (False, 8, 0), (True, 1, 0), (True, 52, 55), (False, 52, 0), (True, 31, 3), (False, 16, 19)]
        if tier == 'thorough':
            fm += [(s, n, f) for s in (True, False) for n in (2, 3, 12, 24, 32, 33, 48) for f in (0, n // 2, n, n + 3)]
        for (s, n, f) in fm:
            for mode in OVERFLOWS:
                for route in ('ctor', 'call', 'set_val', 'setitem'):
                    yield dict(signed=s, n_word=n, n_frac=f, mode=mode, route=route)

    def inputs(self, cfg, D):
        v = D.int('v')
        self.exclude_known(cfg, D, v)
        return {'v': v}

    def exclude_known(self, cfg, D, v):
        # F6 (open): set_val picks int64 / uint64 storage from |v| < 2^64 and then computes v * 2^n_frac in int64,
        # reinterprets uint64 values >= 2^63 as negative, and raises OverflowError in the remaining gaps.
        from fxpv.harness import assume_not_known
        f = cfg['n_frac']
        R = scale2(M(v), f)
        ok_core = And(R < 2**63, R >= -2**63, M(v) < 2**63, M(v) >= -2**63)
        ok_huge = And(cfg['mode'] == 'saturate', Or(M(v) >= 2**64, M(v) < -2**64))
        assume_not_known(D, 'F6', Not(Or(ok_core, ok_huge)))

    def run(self, cfg, P, inp):
        s, n, f, mode, route = cfg['signed'], cfg['n_word'], cfg['n_frac'], cfg['mode'], cfg['route']
        v = inp['v']
        if route == 'ctor':
            x = P.Fxp(v, s, n, f, overflow=mode)
        else:
            shape = (2,) if route == 'setitem' else ()
            x = make_fxp(P, s, n, f, codes=[0] * nelem(shape), shape=shape, cfg={'overflow': mode}, vdtype=float)
            if route == 'call': x(v)
            elif route == 'set_val': x.set_val(v)
            else: x[1] = v
        return obs_fxp(x)

    def post(self, cfg, inp, obs):
        if obs['exc']:
            return {}
        s, n, f, mode = cfg['signed'], cfg['n_word'], cfg['n_frac'], cfg['mode']
        lo, hi = range_of(s, n)
        v = M(inp['v'])
        R = scale2(v, f)
        z = M(elems(obs['val'])[-1])
        st = obs['status']
        out = {'code_eq_Q': eq(z, OVF(R, s, n, mode)), 'in_range': And(z >= lo, z <= hi),
               'flag_overflow': Iff(B(st['overflow']), R > hi), 'flag_underflow': Iff(B(st['underflow']), R < lo)}
        if mode == 'saturate':
            out['own_side'] = And(Implies(R > hi, eq(z, hi)), Implies(R < lo, eq(z, lo)))
        return out


# ==========================================================================================================
@contract
class SaturateWideFloat(Contract):
    """BOUNDED stand-in (not a proof): float inputs -- scalars, lists and arrays, of any magnitude -- stored
    under saturate into words of 54..63 bits, whose limits are not doubles: every code stays inside the
    format's range, out-of-range inputs are stored as the bound on their own side, and the overflow / underflow
    flags are raised exactly when the rounded input lies beyond the limits (checked with exact rationals)."""
    name = 'objects:Fxp.set_val[float into 54..63-bit words] (bounded)'
    layer = 4
    native_only = True
    props = {'*': ['C02'], 'flags_exact': ['C04', 'C02'], 'code_eq_Q': ['C02', 'C01']}

    def configs(self, tier):
        for n in ((54, 55, 60, 63) if tier == 'quick' else range(52, 64)):
            for signed in (True, False):
                for f in (0, 3) if tier == 'quick' else (0, 3, -2):
                    yield dict(signed=signed, n_word=n, n_frac=f)

    def run(self, cfg, P, inp):
        import math
        s, n, f = cfg['signed'], cfg['n_word'], cfg['n_frac']
        np_ = P.np
        lo, hi = range_of(s, n)
        sc = 2.0 ** -f
        arrs = [[1.0, float(hi + 1) * sc], [1.0, 1e18], [-1.0, -1e19], [float(hi + 1) * sc], [0.5, float(lo) * sc], [0.5, float(lo) * sc * 2],
                [2.0, float((hi + 1) // 2) * sc], [1e300, -1e300], [3.0], [float(hi + 1) * sc * 0.75, -1.0], [float(2 ** 53) * sc, float(2 ** 53 + 2) * sc]]
        bad = []; cases = 0
        for arr in arrs:
            for car in (np_.array(arr), list(arr), arr[-1], tuple(arr)):
                cases += 1
                x = P.Fxp(car, s, n, f, rounding='trunc', overflow='saturate')
                codes = [int(c) for c in np_.ravel(x.val)]
                vs = [float(v) for v in (car if isinstance(car, (list, tuple)) else np_.ravel(np_.array(car, dtype=float)).tolist())]
                exp = []; ov = un = False
                for v in vs:
                    r = Fraction(v) * (Fraction(2) ** f)
                    k = math.floor(r) if r >= 0 else -math.floor(-r)
                    if k > hi: ov = True; k = hi
                    if k < lo: un = True; k = lo
                    exp.append(k)
                ok = {'in_range': all(lo <= c <= hi for c in codes), 'code_eq_Q': codes == exp,
                      'flags_exact': bool(x.status['overflow']) == ov and bool(x.status['underflow']) == un}
                for k_, good in ok.items():
                    if not good and len(bad) < 6:
                        bad.append([k_, repr(car)[:80], codes, exp, bool(x.status['overflow']), ov, bool(x.status['underflow']), un])
        return {'bad': bad, 'cases': cases}

    def post(self, cfg, inp, obs):
        if obs['exc']:
            return {}
        failed = {b[0] for b in obs['bad']}
        out = {k: (k not in failed) for k in ('in_range', 'code_eq_Q', 'flags_exact')}
        out['nonvacuous'] = obs['cases'] >= 40
        return out
