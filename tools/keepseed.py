#!/usr/bin/env python3
"""tools/keepseed.py <worktree-out-dir> <id> <property> <seedcheck-output-file>
Copies a confirmed seeded change into /verif/seeded/<id>/ with meta.json."""
import json, os, re, shutil, sys
src, sid, prop, resfile = sys.argv[1:5]
HERE = os.path.dirname(os.path.dirname(os.path.abspath(__file__)))
dst = os.path.join(HERE, 'seeded', sid)
os.makedirs(dst, exist_ok=True)
for f in ('patch.diff', 'demo.py', 'notes.md'):
    if os.path.exists(os.path.join(src, f)):
        shutil.copy(os.path.join(src, f), os.path.join(dst, f))
txt = open(resfile).read()
m = re.search(r'=== %s\n(.*?)(?====|\Z)' % re.escape(sid.replace('-', '/')), txt, re.S)
block = m.group(1) if m else ''
notes = open(os.path.join(src, 'notes.md')).read() if os.path.exists(os.path.join(src, 'notes.md')) else ''
meta = {'id': sid, 'property': prop,
        'source': 'independent sub-agent given only the property text and a scratch worktree of /repo',
        'confirmed': 'CONFIRMED' in block and 'NOT CONFIRMED' not in block,
        'ran': ['demo.py on unchanged scratch copy (exit 0) and with patch.diff applied (exit != 0)',
                'repository test suite with the change (only the 3 always-failing tests fail)',
                './check %s with FXPV_REPO=<scratch copy with the change>' % prop],
        'needs_to_manifest': notes.strip()[:1500],
        'seedcheck_output': block.strip().splitlines()[:14],
        'caught_by': re.findall(r"caught by: (.*)", block)[-1] if 'caught by' in block else None}
json.dump(meta, open(os.path.join(dst, 'meta.json'), 'w'), indent=1)
print(dst, meta['confirmed'], meta['caught_by'])
