import sys, json, time
sys.path.insert(0,'/verif')
from fxpv import runner, harness
reg = runner.load_contracts()
name = sys.argv[1]
pred = eval(sys.argv[2])
cfgs = [c for c in reg[name].configs(sys.argv[3] if len(sys.argv)>3 else 'quick') if pred(c)]
print(len(cfgs), 'configs')
t=time.time()
res = runner.run_tasks([(name, c) for c in cfgs])
s = runner.summarize(res)
print({k: v for k, v in s.items() if k != 'backend'}, round(time.time()-t,1))
n=0
for r in res:
    for e in r['checker_errors'][:1]:
        print('CHK', json.dumps(r['cfg'])[:200], e[:600]); n+=1
    for u in r['undecided_paths'][:1]:
        print('UND', json.dumps(r['cfg'])[:200], str(u)[:300]); n+=1
    for o in r['obligations']:
        if o['result'] != 'discharged':
            print(o['result'].upper(), json.dumps(r['cfg'])[:200], o['label'], json.dumps(o.get('model'), default=str)[:200], json.dumps((o.get('replay') or {}).get('failed_clauses'), default=str)[:100]); n+=1
            break
    for nf in r['native_failures'][:1]:
        print('NATIVE', json.dumps(r['cfg'])[:200], json.dumps(nf, default=str)[:400]); n+=1
    if n > 12: break
