#!/bin/sh
# Compile lemmas/BitLemmas.lean (Lean 4.33.0 + Mathlib, `lean` on PATH).
# Exit 0 iff the file compiles with exit code 0, contains no `sorry` (grep -c = 0),
# no `native_decide`, no `axiom` declaration, and no theorem depends on sorryAx.
# Command that worked in the sandbox:  lean BitLemmas.lean   (run from this directory, ~6-20 s)
cd "$(dirname "$0")" || exit 2
F=BitLemmas.lean

n=$(grep -c sorry "$F")
if [ "$n" != "0" ]; then echo "FAIL: $n line(s) mention sorry in $F"; exit 1; fi
if grep -n -E 'native_decide|^[[:space:]]*(private[[:space:]]+|protected[[:space:]]+)?axiom[[:space:]]' "$F"; then
  echo "FAIL: native_decide / axiom declaration found in $F"; exit 1
fi

out=$(lean "$F" 2>&1)
rc=$?
if [ $rc -ne 0 ] && [ -d /opt/veriftools/mathlib4 ]; then
  # fallback: same compiler through Mathlib's lake environment
  abs="$(pwd)/$F"
  out=$(cd /opt/veriftools/mathlib4 && lake env lean "$abs" 2>&1)
  rc=$?
fi
printf '%s\n' "$out"
if [ $rc -ne 0 ]; then echo "FAIL: lean exited with $rc"; exit 1; fi
if printf '%s\n' "$out" | grep -q -E 'sorryAx|error|declaration uses'; then
  echo "FAIL: compiler output mentions sorryAx / error"; exit 1
fi
echo "OK: $F compiles, no sorry"
exit 0
