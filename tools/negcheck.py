#!/usr/bin/env python3
"""tools/negcheck.py <negative-seed-dir> Cxx [Cyy ...]
A semantics-preserving refactor must NOT raise an alarm: applies patch.diff to a scratch copy of /repo,
runs the test suite, runs the listed checks with FXPV_REPO=<scratch>; prints exit codes (expected: 0)."""
import os, shutil, subprocess, sys, tempfile
HERE = os.path.dirname(os.path.dirname(os.path.abspath(__file__)))
def sh(cmd): return subprocess.run(cmd, shell=True, capture_output=True, text=True)
seed = os.path.abspath(sys.argv[1]); props = sys.argv[2:]
tmp = tempfile.mkdtemp(prefix='negchk_')
ev = os.path.join(tmp, 'ev')      # evidence of runs on the changed tree goes to the scratch directory
ok = True
try:
    mut = os.path.join(tmp, 'mut'); os.makedirs(mut)
    sh('git -C /repo archive HEAD fxpmath tests | tar -x -C %s' % mut)
    r = sh('cd %s && git init -q . && git apply --unsafe-paths %s' % (mut, os.path.join(seed, 'patch.diff')))
    if r.returncode: print('PATCH does not apply', r.stderr[-200:]); sys.exit(2)
    t = sh('cd %s && PYTHONPATH=%s /venv/bin/python -m pytest -q -p no:cacheprovider --timeout=900 -q 2>&1 | tail -6' % (mut, mut))
    failed = [l for l in t.stdout.splitlines() if l.startswith('FAILED')]
    print('test suite: %d failed' % len(failed))
    for p in props:
        c = subprocess.run([os.path.join(HERE, 'check'), p], capture_output=True, text=True, env=dict(os.environ, FXPV_REPO=mut, FXPV_EVIDENCE_DIR=ev), cwd=HERE)
        bad = [l for l in c.stdout.splitlines() if l.startswith(('VIOLATION', 'CHECKER-ERROR'))]
        summ = [l for l in c.stdout.splitlines() if l.startswith(p + ' tier=')]
        print('check %s: exit %d, %d alarm lines ; %s' % (p, c.returncode, len(bad), summ[-1][:170] if summ else ''))
        for l in bad[:3]: print('   ', l[:300])
        ok = ok and c.returncode == 0 and not bad
finally:
    shutil.rmtree(tmp, ignore_errors=True)
print('NO FALSE ALARM' if ok else 'FALSE ALARM')
sys.exit(0 if ok else 1)
