"""dtype strings <-> formats in every notation (C12): decided by the BOUNDED stand-in, exhaustively over the
stated finite domain (regular-expression parsing of strings is outside the prover's reach)."""
from fxpv.harness import Contract, contract
from contracts.common import *


def spec_fxp(signed, n, f, cplx=False):
    return 'fxp-%s%d/%d%s' % ('s' if signed else 'u', n, f, '-complex' if cplx else '')


def spec_q(signed, n, f):
    return '%s%d.%d' % ('Q' if signed else 'UQ', n - f, f)


@contract
class DtypeStrings(Contract):
    """render(F, notation) equals the specified string for the notation ASKED for, whatever the configured
    default; parse(render(F)) == F for the fxp spelling (any n_frac, complex suffix) and for Q/UQ/S/U spellings
    whenever n_word - n_frac >= 0; parsing is case-insensitive; Fxp(dtype=), resize(dtype=) and
    utils.get_sizes_from_dtype agree."""
    name = 'objects:Fxp.dtype-strings'
    layer = 3
    native_only = True
    props = {'*': ['C12'], 'render_default': ['C12', 'C02'], 'render_fxp': ['C12', 'C02'], 'render_Q': ['C12', 'C02'], 'render_none': ['C12', 'C02']}      # C02: the dtype string spells exactly the format

    def configs(self, tier):
        words = list(range(1, 65)) + [127, 128, 255, 256] if tier == 'quick' else list(range(1, 257))
        for signed in (True, False):
            for n in words:
                yield dict(signed=signed, n_word=n)

    def run(self, cfg, P, inp):
        Fxp, utils = P.Fxp, P.utils
        s, n = cfg['signed'], cfg['n_word']
        bad = []
        cases = 0
        def chk(name, cond, detail):
            nonlocal cases
            cases += 1
            if not cond and len(bad) < 5:
                bad.append([name, detail])
        for f in range(-8, n + 9):
            want_fxp = spec_fxp(s, n, f)
            want_q = spec_q(s, n, f)
            for default in ('fxp', 'Q'):
                x = Fxp(None, s, n, f, dtype_notation=default)
                chk('render_default', x.dtype == (want_fxp if default == 'fxp' else want_q), [f, default, x.dtype])
                chk('render_fxp', x.get_dtype('fxp') == want_fxp, [f, default, x.get_dtype('fxp')])
                chk('render_Q', x.get_dtype('Q') == want_q, [f, default, x.get_dtype('Q')])
                chk('render_none', x.get_dtype() == (want_fxp if default == 'fxp' else want_q), [f, default])
            # the configured notation travels with the configuration: config= objects, and results of arithmetic
            if n <= 30 and abs(f) <= 30:
                xq = Fxp(None, s, n, f, config=P.Config(dtype_notation='Q'))
                chk('render_default', xq.dtype == want_q, [f, 'config=Config(Q)', xq.dtype])
                a_ = Fxp(0, s, n, f, dtype_notation='Q'); r_ = a_ + a_
                chk('render_default', r_.dtype == spec_q(r_.signed, r_.n_word, r_.n_frac) and r_.get_dtype('fxp') == spec_fxp(r_.signed, r_.n_word, r_.n_frac), [f, 'a+a under Q', r_.dtype])
            # parsing the fxp spelling (and its upper-case form) by constructor and by resize
            for text in (want_fxp, want_fxp.upper()):
                y = Fxp(None, dtype=text)
                chk('parse_ctor', (y.signed, y.n_word, y.n_frac) == (s, n, f) and y.vdtype != complex, [f, text, y.signed, y.n_word, y.n_frac])
                z = Fxp(None, not s, max(n - 1, 1), f - 1); z.resize(dtype=text)      # a neighbouring format: the re-scaling of the value is C10's business
                chk('parse_resize', (z.signed, z.n_word, z.n_frac) == (s, n, f), [f, text, z.signed, z.n_word, z.n_frac])
            chk('get_sizes', _sizes(utils, want_fxp) == (s, n, f), [f, want_fxp, _sizes(utils, want_fxp)])
            if n <= 40 and abs(f) <= 40:
                # the fxp_sum(dtype=) route: the string alone determines the result format, whatever the sign of the sum
                for data in ([0.0, 1.0], [-1.0, 0.5], [-3.0, -2.0]):
                    r = P.pkg.fxp_sum(Fxp(data, True, 16, 4), dtype=want_fxp)
                    chk('fxp_sum_dtype', (r.signed, r.n_word, r.n_frac) == (s, n, f) and r.dtype == want_fxp, [f, want_fxp, data, r.dtype])
            if n <= 52:
                ctext = spec_fxp(s, n, f, True)
                yc = Fxp(None, dtype=ctext)
                chk('parse_complex', (yc.signed, yc.n_word, yc.n_frac) == (s, n, f) and yc.vdtype == complex, [f, ctext])
                chk('render_complex', Fxp(1 + 1j, s, n, f).dtype == ctext, [f, ctext])
                for ref in (Fxp(None, not s, 7, 1), Fxp(0.5, s, max(n, 2), 0)):       # like= a REAL reference + a complex dtype string
                    yl = Fxp(None, like=ref, dtype=ctext)
                    chk('parse_like_complex', (yl.signed, yl.n_word, yl.n_frac) == (s, n, f) and yl.dtype == ctext and yl.vdtype == complex, [f, ctext, yl.dtype])
                yl = Fxp(None, like=Fxp(1 + 1j, not s, 9, 2), dtype=want_fxp)                # like= a COMPLEX reference + a real dtype string: sizes follow the string
                chk('parse_like_real', (yl.signed, yl.n_word, yl.n_frac) == (s, n, f), [f, want_fxp, yl.dtype])
                zv = Fxp(0.0, not s, 9, 1); zv.resize(dtype=ctext)       # ... a real object HOLDING A VALUE resized with a complex dtype string
                chk('parse_resize_complex', zv.dtype == ctext and zv.vdtype == complex, [f, ctext, 'holding a value', zv.dtype])
                zc = Fxp(None, s, n, f); zc.resize(dtype=ctext)          # a real object resized with a complex dtype string
                chk('parse_resize_complex', zc.dtype == ctext and zc.get_dtype('fxp') == ctext and zc.vdtype == complex, [f, ctext, zc.dtype])
                zr = Fxp(1 + 1j, s, n, f); zr.resize(dtype=want_fxp)
                chk('parse_resize_real', (zr.signed, zr.n_word, zr.n_frac) == (s, n, f), [f, want_fxp, zr.dtype])
                chk('get_sizes_complex', _sizes(utils, ctext) == (s, n, f), [f, ctext, _sizes(utils, ctext)])
            if n - f >= 0:
                for text in (want_q, want_q.lower(), ('S' if s else 'U') + '%d.%d' % (n - f, f), ('s' if s else 'u') + '%d.%d' % (n - f, f)):
                    y = Fxp(None, dtype=text)
                    chk('parse_Q', (y.signed, y.n_word, y.n_frac) == (s, n, f), [f, text, y.signed, y.n_word, y.n_frac])
                # the same strings through resize(dtype=) of receivers of EITHER signedness (empty, and holding a value) and through like= + dtype=
                for text in (want_q, ('s' if s else 'u') + '%d.%d' % (n - f, f)):
                    for rs in (True, False):
                        for v0 in ((None, 0.5) if -4 <= f <= 40 else (None,)):       # (a held value is re-scaled by 2^(f-4): kept clear of the int64 limit, open finding F14)
                            z = Fxp(0.5, rs, 12, 4) if v0 is not None else Fxp(None, rs, max(n - 1, 1), f - 1)
                            z.resize(dtype=text)
                            chk('parse_Q_resize', (z.signed, z.n_word, z.n_frac) == (s, n, f) and z.get_dtype('Q') == want_q, [f, text, 'receiver signed=%s value=%s' % (rs, v0), z.signed, z.n_word, z.n_frac])
                        yl = Fxp(None, like=Fxp(None, rs, 7, 1), dtype=text)
                        chk('parse_Q_like', (yl.signed, yl.n_word, yl.n_frac) == (s, n, f), [f, text, 'like signed=%s' % rs, yl.signed, yl.n_word, yl.n_frac])
        return {'bad': bad, 'cases': cases}

    def post(self, cfg, inp, obs):
        if obs['exc']:
            return {}
        names = ['render_default', 'render_fxp', 'render_Q', 'render_none', 'parse_ctor', 'parse_resize', 'get_sizes',
                 'parse_complex', 'parse_like_complex', 'parse_like_real', 'fxp_sum_dtype', 'parse_resize_complex', 'parse_resize_real', 'render_complex', 'get_sizes_complex', 'parse_Q', 'parse_Q_resize', 'parse_Q_like']
        failed = {b[0] for b in obs['bad']}
        out = {k: (k not in failed) for k in names}
        out['nonvacuous'] = obs['cases'] > 50
        return out


def _sizes(utils, text):
    try:
        return tuple(utils.get_sizes_from_dtype(text))
    except Exception as e:
        return ('raised', type(e).__name__)
