"""fxpv.harness -- contracts, body verification by path-complete symbolic execution, stubs,
per-path concolic cross-check against the untransformed library, native replay.
"""
import copy
import json
import os
import sys
import time
import traceback
from fractions import Fraction

import numpy as _np
import z3

from . import core, loader
from .core import SNum, SBool, Undecided, CheckerError, MTerm, MBool
from .arr import SBase, SArr, SGen
from . import arr as A

REGISTRY = {}
PATH_CAP = 4000


def contract(cls):
    inst = cls()
    REGISTRY[inst.name] = inst
    return cls


# ----------------------------------------------------------------------------------------
# packages (shadow / native) as seen by harness code
# ----------------------------------------------------------------------------------------
class Pkg:
    def __init__(self, pkg, symbolic):
        self.pkg = pkg
        self.symbolic = symbolic
        self.objects = pkg.objects
        self.utils = pkg.utils
        self.functions = pkg.functions
        self.Fxp = pkg.Fxp
        self.Config = pkg.Config
        if symbolic:
            from . import npc
            self.np = npc
        else:
            self.np = _np

    def arr(self, values, dtype=None, shape=None):
        """Build an ndarray (proxy or real) of the given dtype/shape from a flat list of element values.
        Harness-side construction of inputs: elements must already be representable in `dtype`."""
        if not isinstance(values, (list, tuple)):
            values = [values]
        values = list(values)
        if shape is None:
            shape = (len(values),)
        shape = tuple(shape)
        isobj = dtype is object or (dtype is not None and _np.dtype(dtype).kind == 'O')
        if self.symbolic:
            if dtype is None:
                a = A.array(values)
                return a.reshape(shape) if a.shape != shape else a
            dt = A.OBJ if isobj else _np.dtype(dtype)
            el = []
            for v in values:
                if dt.kind == 'f':
                    if isinstance(v, SNum) and v.isint:
                        v = SNum.float_of_intterm(v.t, 0)
                    elif isinstance(v, (bool, int)):
                        v = float(v)
                elif dt.kind in 'iu' and isinstance(v, bool):
                    v = int(v)
                el.append(v)
            return A.new_like(shape, el, dt)
        if isobj:
            a = _np.empty(len(values), dtype=object)
            for i, v in enumerate(values):
                a[i] = v
        else:
            a = _np.array(values, dtype=dtype) if dtype is not None else _np.array(values)
        return a.reshape(shape)

    def npscalar(self, v, dtype):
        """a NumPy scalar of the given dtype"""
        return self.arr([v], dtype=dtype, shape=())[()]


_PKGS = None

def packages():
    global _PKGS
    if _PKGS is None:
        sh, nat = loader.load()
        _PKGS = (Pkg(sh, True), Pkg(nat, False), loader.Snapshot(sh), loader.Snapshot(nat))
    return _PKGS


# ----------------------------------------------------------------------------------------
# input declaration (symbolic / native)
# ----------------------------------------------------------------------------------------
class SymDecl:
    symbolic = True
    def __init__(self, ctx):
        self.ctx = ctx
        self.meta = {}
    def int(self, name, lo=None, hi=None):
        c = self.ctx.input_int(name)
        if lo is not None: self.ctx.add(c >= lo)
        if hi is not None: self.ctx.add(c <= hi)
        self.meta[name] = ('int', lo, hi)
        return SNum(c)
    def real(self, name, lo=None, hi=None, lo_strict=False, hi_strict=False):
        """a free double: modelled as a real number"""
        c = self.ctx.input_real(name)
        if lo is not None: self.ctx.add(c > core.zreal(Fraction(lo)) if lo_strict else c >= core.zreal(Fraction(lo)))
        if hi is not None: self.ctx.add(c < core.zreal(Fraction(hi)) if hi_strict else c <= core.zreal(Fraction(hi)))
        self.meta[name] = ('real', lo, hi)
        return SNum(c)
    def dyadic(self, name, g, lo=None, hi=None):
        """a double of the form k / 2**g with |k| <= 2**53 (k symbolic)"""
        k = self.ctx.input_int(name)
        self.ctx.add(k >= -(2**53), k <= 2**53)
        if lo is not None: self.ctx.add(k >= lo)
        if hi is not None: self.ctx.add(k <= hi)
        self.meta[name] = ('dyadic', g, lo, hi)
        return SNum.float_of_intterm(k, g)
    def bool(self, name):
        c = self.ctx.input_bool(name)
        self.meta[name] = ('bool',)
        return SBool(c)
    def assume(self, cond):
        self.ctx.assume(cond)
        return True


class NativeDecl:
    symbolic = False
    def __init__(self, values, lenient=False):
        self.values = values
        self.ok = True
        self.meta = {}
        # lenient: replay of a recorded (open) finding -- its input lies, by construction, in the region the
        # contract's precondition now excludes, and flags added to the input space later default to False
        self.lenient = lenient
    def _get(self, name):
        if name not in self.values:
            raise KeyError('input %s missing from replay values' % name)
        return self.values[name]
    def int(self, name, lo=None, hi=None):
        v = int(self._get(name))
        if (lo is not None and v < lo) or (hi is not None and v > hi):
            self.ok = False
        return v
    def real(self, name, lo=None, hi=None, lo_strict=False, hi_strict=False):
        fr = Fraction(self._get(name))
        v = float(fr)
        if Fraction(v) != fr:
            self.ok = False     # not a double: this model cannot be replayed
        if lo is not None and (fr < lo or (lo_strict and fr == lo)): self.ok = False
        if hi is not None and (fr > hi or (hi_strict and fr == hi)): self.ok = False
        return v
    def dyadic(self, name, g, lo=None, hi=None):
        k = int(self._get(name))
        if (lo is not None and k < lo) or (hi is not None and k > hi) or abs(k) > 2**53:
            self.ok = False
        fr = Fraction(k, 1 << g) if g >= 0 else Fraction(k * (1 << -g))
        v = float(fr)
        if Fraction(v) != fr:
            self.ok = False
        return v
    def bool(self, name):
        if self.lenient and name not in self.values:
            return False
        return bool(self._get(name))
    def assume(self, cond):
        if not cond and not self.lenient:
            self.ok = False
        return bool(cond)


# ----------------------------------------------------------------------------------------
# canonical observations (for concolic comparison and replay files)
# ----------------------------------------------------------------------------------------
def _num_canon(x):
    if isinstance(x, bool):
        return ['b', bool(x)]
    if isinstance(x, int):
        return ['i', int(x)]
    if isinstance(x, float):
        if x != x: return ['f', 'nan']
        if x in (float('inf'), float('-inf')): return ['f', 'inf' if x > 0 else '-inf']
        fr = Fraction(x)
        return ['f', [fr.numerator, fr.denominator]]
    if isinstance(x, Fraction):
        return ['f', [x.numerator, x.denominator]]
    raise CheckerError('_num_canon %r' % (x,))


def canon(x, model=None):
    """JSON-able canonical form; symbolic parts are evaluated in `model`."""
    if x is None or isinstance(x, str) and not _is_sstr(x):
        return x
    if _is_sstr(x):
        from . import strs
        return strs.concretise(x, model)
    if isinstance(x, _np.generic):
        return {'__arr__': 'npscalar', 'dtype': _dtname(x.dtype), 'shape': [],
                'elems': [_elem_canon(x.item(), x.dtype, None)]}
    if isinstance(x, (bool, int, float, Fraction)):
        return _num_canon(x)
    if isinstance(x, SBool):
        return ['b', bool(core.zval(model.eval(x.t, model_completion=True)))]
    if isinstance(x, SNum):
        v = core.zval(model.eval(x.t, model_completion=True))
        k = core.kind_of(x)
        if k == 'num':
            k = 'int' if core.zval(model.eval(x.kc, model_completion=True)) else 'float'
        if k == 'int':
            return ['i', int(v)]
        fr = Fraction(v)
        return ['f', [fr.numerator, fr.denominator]]
    if isinstance(x, (MTerm,)):
        v = core.zval(model.eval(x.t, model_completion=True))
        return ['i', int(v)] if isinstance(v, int) else ['f', [Fraction(v).numerator, Fraction(v).denominator]]
    if isinstance(x, SBase):
        kind = 'npscalar' if x.is_scalar else 'ndarray'
        return {'__arr__': kind, 'dtype': _dtname(x.dtype), 'shape': list(x.shape),
                'elems': [_elem_canon(e, x.dtype, model) for e in x.elems]}
    if isinstance(x, _np.ndarray):
        flat = list(x.ravel()) if x.dtype.kind == 'O' else x.ravel().tolist()
        return {'__arr__': 'ndarray', 'dtype': _dtname(x.dtype), 'shape': list(x.shape),
                'elems': [_elem_canon(e, x.dtype, None) for e in flat]}
    if isinstance(x, _np.generic):
        return {'__arr__': 'npscalar', 'dtype': _dtname(x.dtype), 'shape': [],
                'elems': [_elem_canon(x.item(), x.dtype, None)]}
    if isinstance(x, dict):
        return {str(k): canon(v, model) for k, v in x.items()}
    if isinstance(x, (list, tuple)):
        return [canon(v, model) for v in x]
    if isinstance(x, type):
        return 'type:' + _typename(x)
    if isinstance(x, _np.dtype):
        return 'dtype:' + x.name
    return 'obj:' + type(x).__name__


def _typename(t):
    if t is SArr: return 'ndarray'
    if t is SGen: return 'generic'
    return t.__name__


def _dtname(dt):
    if dt.kind == 'U':
        return 'str'
    return dt.name


def _elem_canon(e, dt, model):
    if dt.kind == 'O':
        if isinstance(e, _np.ndarray) and e.ndim == 0:
            e = e.item()
        return canon(e, model)
    c = canon(e, model)
    if isinstance(c, list) and len(c) == 2:
        # normalise the tag to the dtype kind
        if dt.kind == 'f' and c[0] == 'i':
            return ['f', [c[1], 1]]
        if dt.kind in 'iu' and c[0] == 'b':
            return ['i', int(c[1])]
    return c


def _is_sstr(x):
    from . import strs
    return strs.is_sstr(x)


# ----------------------------------------------------------------------------------------
# the Contract base class
# ----------------------------------------------------------------------------------------
class Contract:
    """A machine-checked specification of one real function (or a property lemma over contracts).

    name      : 'module:qualname' of the function under contract (lemmas: 'lemma:<id>')
    layer     : layering index; stubs of lower layers may be installed (see `uses`)
    uses      : names of contracts whose *stubs* replace the callee while this body is verified
    props     : clause name -> list of property ids it carries ('*' = all clauses)
    allowed_exceptions : exception type names a path may end with (clauses then see obs['exc'])
    """
    name = None
    layer = 0
    uses = ()
    props = {}
    allowed_exceptions = ()
    bounded_only = False

    def configs(self, tier):
        raise NotImplementedError
    def inputs(self, cfg, D):
        return {}
    def run(self, cfg, P, inp):
        raise NotImplementedError
    def post(self, cfg, inp, obs):
        raise NotImplementedError
    def stubs(self, P):
        """-> {(owner object, attribute name): replacement} for the shadow package"""
        return {}
    def clause_props(self, clause):
        ps = list(self.props.get(clause, ())) + list(self.props.get('*', ()))
        return ps


_OPEN = None

def open_findings():
    """ids of the recorded (not repaired) genuine defects: their input regions are excluded from the
    corresponding preconditions and reported as KNOWN-FINDING lines instead"""
    global _OPEN
    if _OPEN is None:
        fn = os.path.join(os.path.dirname(os.path.dirname(os.path.abspath(__file__))), 'known_findings.json')
        _OPEN = set()
        if os.path.exists(fn):
            with open(fn) as f:
                for e in json.load(f).get('findings', []):
                    if e.get('status') == 'open':
                        _OPEN.add(e['id'])
    return _OPEN


def assume_not_known(D, fid, region):
    """precondition: stay outside the input region of the open known finding `fid`"""
    if fid in open_findings():
        from specs.core import Not
        D.assume(Not(region))


def _run_guarded(c, cfg, P, inp):
    """Run the harness body; ordinary exceptions of the code under test become observations."""
    try:
        obs = c.run(cfg, P, inp)
        if not isinstance(obs, dict):
            obs = {'result': obs}
        obs.setdefault('exc', None)
        return obs
    except (Undecided, core.PathInfeasible, CheckerError):
        raise
    except AssertionError:
        raise
    except Exception as e:
        if core.CTX is not None and core.CTX.sticky is not None:
            raise core.CTX.sticky
        tb = traceback.extract_tb(e.__traceback__)
        where = ''
        for fr in reversed(tb):
            if '/fxpmath/' in fr.filename:
                where = '%s:%d' % (os.path.basename(fr.filename), fr.lineno)
                break
        return {'exc': type(e).__name__, 'exc_msg': str(e)[:200], 'exc_where': where}


class StubInstaller:
    def __init__(self, P, contracts):
        self.P = P
        self.saved = []
        self.contracts = contracts
    def __enter__(self):
        for cn in self.contracts:
            c = REGISTRY[cn]
            for (owner, attr), repl in c.stubs(self.P).items():
                had = attr in owner.__dict__ if hasattr(owner, '__dict__') else True
                self.saved.append((owner, attr, owner.__dict__.get(attr) if hasattr(owner, '__dict__') else getattr(owner, attr), had))
                setattr(owner, attr, repl)
        return self
    def __exit__(self, *a):
        for owner, attr, old, had in reversed(self.saved):
            if had:
                setattr(owner, attr, old)
            else:
                delattr(owner, attr)


# ----------------------------------------------------------------------------------------
# verifying one configuration
# ----------------------------------------------------------------------------------------
def _next_prefix(trace):
    """depth-first search over decisions: flip the deepest fork whose other side is still unexplored; forks
    above it keep their pending alternatives"""
    for i in range(len(trace) - 1, -1, -1):
        d, alt = trace[i]
        if alt and d:
            return [(t[0], t[1]) for t in trace[:i]] + [(False, False)]
    return None


def _is_double(fr):
    fr = Fraction(fr)
    if fr == 0:
        return True
    d = fr.denominator
    if d & (d - 1):
        return False
    n = abs(fr.numerator)
    while n % 2 == 0:
        n //= 2
    return n < 2**53 and d.bit_length() < 1000


def _dyadic_model(ctx, D, extra=()):
    """A model of the path condition (+extra) in which every real input is a double.  A plain model is
    taken first and each non-double value is then moved to a nearby dyadic candidate (concrete
    equalities only: mixed integer/real searches make z3 diverge)."""
    extra = list(extra)
    m = ctx.any_model(extra)
    if m is None:
        return None
    reals = [n for n, mt in D.meta.items() if mt[0] == 'real']
    if not reals:
        return m
    fixed = []
    for n in reals:
        const = ctx.inputs[n][1]
        v = Fraction(core.zval(m.eval(const, model_completion=True)))
        if _is_double(v):
            fixed.append(const == core.zreal(v))
            continue
        ok = False
        for g in (0, 1, 2, 3, 4, 8, 12, 16, 24, 32, 44, 52, 60, 70, 90):
            sc = v * (1 << g)
            fl = sc.numerator // sc.denominator
            for cand in (Fraction(fl, 1 << g), Fraction(fl + 1, 1 << g)):
                if not _is_double(cand):
                    continue
                m2 = ctx.any_model(extra + fixed + [const == core.zreal(cand)])
                if m2 is not None:
                    fixed.append(const == core.zreal(cand)); ok = True; m = m2
                    break
            if ok:
                break
        if not ok:
            return None
    return ctx.any_model(extra + fixed)


def verify_config(cname, cfg, concolic=True, timeout_ms=None):
    """Explore all paths of contract `cname` at configuration `cfg`.  Returns a result dict."""
    c = REGISTRY[cname]
    Psym, Pnat, snap_s, snap_n = packages()
    t0 = time.time()
    if getattr(c, 'native_only', False):
        return _verify_native(c, cname, cfg, Pnat, snap_n)
    res = {'contract': cname, 'cfg': cfg, 'paths': 0, 'obligations': [], 'undecided_paths': [],
           'concolic': 0, 'concolic_skipped': 0, 'checker_errors': [], 'native_failures': [],
           'solver_s': 0.0, 'assumed': set(), 'notes': [], 'exc_paths': 0, 'clauses_reached': {}, 'fp_exact_proved': 0, 'fp_approx': 0,
           'funcs': set()}
    prefix = []
    meta = {}
    while True:
        ctx = core.Ctx(prefix, timeout_ms)
        core.CTX = ctx
        snap_s.restore()
        D = SymDecl(ctx)
        obs = None
        inp = None
        try:
            inp = c.inputs(cfg, D)
            if not ctx.feasible(z3.BoolVal(True)) and res['paths'] == 0:
                res['checker_errors'].append('precondition unsatisfiable (vacuous contract) at %s' % json.dumps(cfg, default=str))
                break
            with StubInstaller(Psym, c.uses):
                obs = _run_guarded(c, cfg, Psym, inp)
            ctx.spec_depth += 1
            try:
                clauses = c.post(cfg, inp, obs)
            finally:
                ctx.spec_depth -= 1
            if obs.get('exc') is not None and obs['exc'] not in c.allowed_exceptions:
                clauses = dict(clauses)
                clauses['no_exception'] = False
            pid = res['paths']
            ctx.prove_all(clauses, kind='clause')
            for cl in clauses:
                res['clauses_reached'][cl] = res['clauses_reached'].get(cl, 0) + 1
            if obs.get('exc') is not None:
                res['exc_paths'] += 1
        except Undecided as u:
            res['undecided_paths'].append({'path': res['paths'], 'why': '%s: %s' % (type(u).__name__, u)})
        except core.PathInfeasible:
            pass
        except CheckerError as e:
            res['checker_errors'].append('%s' % e)
        except Exception as e:
            res['checker_errors'].append('internal: %s: %s\n%s' % (type(e).__name__, e, traceback.format_exc()[-1500:]))
        # refuted obligations: ask for a counter-model whose real inputs are doubles
        for ob in ctx.oblig:
            neg = ob.pop('_neg', None)
            if neg is not None and ob['result'] == 'failed':
                try:
                    m = _dyadic_model(ctx, D, [neg])
                    if m is not None:
                        ob['model'] = ctx.model_inputs(m)
                except Exception:
                    pass
            ob['approx'] = ctx.approx_used
        meta = D.meta
        # collect obligations of this path
        for ob in ctx.oblig:
            ob = dict(ob)
            ob['path'] = res['paths']
            res['obligations'].append(ob)
        # concolic cross-check on this path
        if concolic and obs is not None and not res['checker_errors']:
            try:
                _concolic(c, cfg, ctx, D, inp, obs, Pnat, snap_n, res)
            except Undecided as u:
                res['concolic_skipped'] += 1
            except Exception as e:
                res['checker_errors'].append('concolic: %s: %s\n%s' % (type(e).__name__, e, traceback.format_exc()[-1500:]))
        res['paths'] += 1
        res['solver_s'] += ctx.solver_s
        res['fp_exact_proved'] += ctx.fp_exact_proved
        res['fp_approx'] += ctx.fp_approx
        res['assumed'] |= ctx.assumed_used
        res['funcs'] |= ctx.funcs_entered
        for n in ctx.notes:
            if n not in res['notes'] and len(res['notes']) < 20:
                res['notes'].append(n)
        nxt = _next_prefix(ctx.trace)
        core.CTX = None
        if nxt is None:
            break
        if res['paths'] >= PATH_CAP:
            res['undecided_paths'].append({'path': res['paths'], 'why': 'path cap %d reached' % PATH_CAP})
            break
        prefix = nxt
    # failed obligations: replay natively; when the model itself does not fail on the real code,
    # search its neighbourhood with the bounded stand-in
    from . import bounded
    nsearch = 0
    for ob in res['obligations']:
        if ob['result'] == 'failed':
            rp = replay_inputs(cname, cfg, _js(ob.get('model') or {}), ob['label'])
            rp['found_by'] = 'model'
            if not (rp.get('replayable') and rp.get('failed_clauses')) and nsearch < 3:
                nsearch += 1
                ev, hit = bounded.search(cname, cfg, meta, ob.get('model'), seed=int(os.environ.get('VERIF_SEED', '0') or 0), budget=800)
                res['bounded_evaluations'] = res.get('bounded_evaluations', 0) + ev
                if hit is not None:
                    rp = hit
                    rp['found_by'] = 'bounded-neighbourhood'
            ob['replay'] = rp
            ob['model'] = _js(ob.get('model') or {})
    if res['undecided_paths'] and not res['checker_errors']:
        ev, hit = bounded.search(cname, cfg, meta, None, seed=int(os.environ.get('VERIF_SEED', '0') or 0), budget=1500)
        res['bounded_evaluations'] = res.get('bounded_evaluations', 0) + ev
        res['bounded_fallback'] = {'evaluations': ev, 'failure': hit}
    res['assumed'] = sorted(res['assumed'])
    res['funcs'] = sorted(res['funcs'])
    res['wall_s'] = time.time() - t0
    core.CTX = None
    return res


def _verify_native(c, cname, cfg, Pnat, snap_n):
    """bounded stand-in as the deciding method: the contract is evaluated at run time on the untransformed
    library for one (concrete) configuration; results are labelled `bounded`, never `discharged by a solver`"""
    t0 = time.time()
    res = {'contract': cname, 'cfg': cfg, 'paths': 1, 'obligations': [], 'undecided_paths': [], 'concolic': 0,
           'concolic_skipped': 0, 'checker_errors': [], 'native_failures': [], 'solver_s': 0.0, 'assumed': [], 'notes': [],
           'exc_paths': 0, 'clauses_reached': {}, 'fp_exact_proved': 0, 'fp_approx': 0, 'bounded_evaluations': 1, 'native_only': True}
    saved = core.CTX
    core.CTX = None
    try:
        snap_n.restore()
        inp = c.inputs(cfg, NativeDecl({}))
        obs = _run_guarded(c, cfg, Pnat, inp)
        cl = c.post(cfg, inp, obs)
        if obs.get('exc') is not None and obs['exc'] not in c.allowed_exceptions:
            cl = dict(cl); cl['no_exception'] = False
        res['bounded_cases'] = int(obs.get('cases', 1) or 1) if isinstance(obs, dict) else 1
        res['bounded_sample'] = {'config': cfg, 'cases': res['bounded_cases']}
        for k, v in cl.items():
            ok = v is True or (v is not False and bool(v))
            rec = {'label': k, 'kind': 'clause', 'result': 'discharged' if ok else 'failed', 'backend': 'bounded', 'model': {}, 'time': 0.0, 'path': 0}
            if not ok:
                rec['replay'] = {'replayable': True, 'failed_clauses': [k], 'inputs': {}, 'obs': canon(_strip_private(obs), None), 'found_by': 'bounded'}
                rec['solver'] = 'clause evaluated to False natively'
            res['obligations'].append(rec)
            res['clauses_reached'][k] = res['clauses_reached'].get(k, 0) + 1
    except Exception as e:
        res['checker_errors'].append('native-only contract crashed: %s: %s\n%s' % (type(e).__name__, e, traceback.format_exc()[-1200:]))
    finally:
        core.CTX = saved
    res['wall_s'] = time.time() - t0
    return res


def _concolic(c, cfg, ctx, D, inp, obs, Pnat, snap_n, res):
    m = _dyadic_model(ctx, D)
    if m is None:
        res['concolic_skipped'] += 1
        return
    # z3's nonlinear engine occasionally returns models that do not satisfy the assertions: never
    # compare against such a model
    for a in ctx.solver.assertions():
        if not z3.is_true(m.eval(a, model_completion=True)):
            res['concolic_skipped'] += 1
            res['model_invalid'] = res.get('model_invalid', 0) + 1
            return
    vals = ctx.model_inputs(m)
    sym_c = canon(_strip_private(obs), m)
    ND = NativeDecl(vals)
    saved = core.CTX
    core.CTX = None
    try:
        snap_n.restore()
        ninp = c.inputs(cfg, ND)
        if not ND.ok:
            res['concolic_skipped'] += 1
            return
        nobs = _run_guarded(c, cfg, Pnat, ninp)
        nat_c = canon(_strip_private(nobs), None)
        ncl = c.post(cfg, ninp, nobs)
        if nobs.get('exc') is not None and nobs['exc'] not in c.allowed_exceptions:
            ncl = dict(ncl); ncl['no_exception'] = False
    finally:
        core.CTX = saved
    res['concolic'] += 1
    if sym_c != nat_c and not ctx.approx_used:
        d = _first_diff(sym_c, nat_c)
        res['checker_errors'].append('concolic mismatch at cfg=%s inputs=%s: %s' % (json.dumps(cfg, default=str), _js(vals), d))
    bad = [k for k, v in ncl.items() if v is not True and not (v is not False and bool(v))]
    if bad:
        res['native_failures'].append({'inputs': _js(vals), 'clauses': bad, 'obs': nat_c})


def _strip_private(obs):
    return {k: v for k, v in obs.items() if not str(k).startswith('_') and k not in ('exc_msg', 'exc_where')}


def _first_diff(a, b, path=''):
    if type(a) != type(b):
        return '%s: symbolic=%r native=%r' % (path, a, b)
    if isinstance(a, dict):
        for k in sorted(set(a) | set(b)):
            if k not in a or k not in b:
                return '%s.%s: missing on one side (symbolic=%r native=%r)' % (path, k, a.get(k), b.get(k))
            if a[k] != b[k]:
                return _first_diff(a[k], b[k], path + '.' + str(k))
    if isinstance(a, list):
        if len(a) != len(b):
            return '%s: length %d vs %d (symbolic=%r native=%r)' % (path, len(a), len(b), a, b)
        for i, (x, y) in enumerate(zip(a, b)):
            if x != y:
                return _first_diff(x, y, path + '[%d]' % i)
    return '%s: symbolic=%r native=%r' % (path, a, b)


def _js(vals):
    out = {}
    for k, v in vals.items():
        if isinstance(v, Fraction):
            out[k] = '%d/%d' % (v.numerator, v.denominator)
        else:
            out[k] = v
    return out


def _unjs(vals):
    out = {}
    for k, v in vals.items():
        if isinstance(v, str) and '/' in v:
            n, d = v.split('/')
            out[k] = Fraction(int(n), int(d))
        else:
            out[k] = v
    return out


def replay_inputs(cname, cfg, vals, label=None, lenient=False):
    """Run the REAL function natively on concrete inputs and evaluate every clause natively.
    -> {'replayable': bool, 'failed_clauses': [...], 'obs': canon}"""
    c = REGISTRY[cname]
    Psym, Pnat, snap_s, snap_n = packages()
    vals = _unjs(vals)
    saved = core.CTX
    core.CTX = None
    try:
        snap_n.restore()
        # real-valued inputs that are not doubles: move to the nearest double
        ND = NativeDecl(vals, lenient=lenient)
        try:
            ninp = c.inputs(cfg, ND)
        except KeyError as e:
            return {'replayable': False, 'why': str(e)}
        if not ND.ok:
            return {'replayable': False, 'why': 'model is outside the native input domain (not a double / precondition)'}
        nobs = _run_guarded(c, cfg, Pnat, ninp)
        ncl = c.post(cfg, ninp, nobs)
        if nobs.get('exc') is not None and nobs['exc'] not in c.allowed_exceptions:
            ncl = dict(ncl); ncl['no_exception'] = False
        bad = [k for k, v in ncl.items() if not (v is True or (v is not False and bool(v)))]
        return {'replayable': True, 'failed_clauses': bad, 'inputs': _js(vals), 'obs': canon(_strip_private(nobs), None)}
    except Exception as e:
        return {'replayable': False, 'why': 'native replay crashed: %s: %s' % (type(e).__name__, e)}
    finally:
        core.CTX = saved



def explorer_selftest():
    """engine self-test run before every check: a function with three independent symbolic branches must be
    explored along exactly 8 paths with 8 distinct results, an infeasible branch must not be explored, and a
    false clause must be refuted.  Returns a list of problems (empty = fine)."""
    problems = []
    prefix = []
    seen = []
    n = 0
    while True:
        ctx = core.Ctx(prefix)
        core.CTX = ctx
        a = SNum(ctx.input_int('a')); b = SNum(ctx.input_int('b')); c = SNum(ctx.input_int('c'))
        ctx.add(a.t >= 0, a.t <= 10)
        r = 0
        if a > 5: r += 1
        if b > 0: r += 2
        if c > 0: r += 4
        if a > 20: r += 100           # infeasible
        seen.append(r)
        if n == 0:
            ok = ctx.prove('selftest-true', SBool(a.t <= 10))
            bad = ctx.prove('selftest-false', SBool(a.t <= 9))
            if not ok or bad:
                problems.append('solver self-test failed (valid clause: %s, invalid clause accepted: %s)' % (ok, bad))
        n += 1
        prefix = _next_prefix(ctx.trace)
        core.CTX = None
        if prefix is None or n > 64:
            break
    if sorted(seen) != list(range(8)):
        problems.append('explorer self-test: expected 8 paths with results 0..7, got %r' % (sorted(seen),))
    return problems
