import json
props=[json.loads(l) for l in open('./properties.jsonl')]
CLAIMS = json.load(open('./claims.json'))
m={"version":1,"setup_cmd":"./setup.sh",
 "hooks":{"guard":"FXPMATH_VERIF","enable":"no hooks: the machinery never edits /repo (the shadow package is generated from /repo's sources at run time)","baseline_off_cmd":"cd /repo && /venv/bin/python -m pytest -ra -q -p no:cacheprovider --timeout=900 --continue-on-collection-errors","source_commits":[],"add_only":True},
 "engines":[{"name":"fxpv","path":"fxpv/","serves_properties":sorted(CLAIMS),"kind_free_text":"contract-based deductive verifier: CPython-hosted path-complete symbolic execution of the real fxpmath sources (mechanically transformed on every run), obligations discharged by z3 with cvc5 fallback; per-path concolic cross-check; bounded stand-in for undecided parts"}],
 "checks":[],"not_applicable":[],
 "notes":"./check <id> decides one property; evidence/<id>.json is rewritten on every run; replays/<id>/NNN.json on violation; known_findings.json lists recorded/fixed genuine defects."}
for p in props:
    pid=p['id']
    if pid in CLAIMS:
        c=CLAIMS[pid]
        m['checks'].append({"property_id":pid,"quick_cmd":"./check %s --tier quick"%pid,"thorough_cmd":"./check %s --tier thorough"%pid,
          "evidence_file":"evidence/%s.json"%pid,"replay_cmd_template":"./check --replay {path}","engine":"fxpv",
          "level_claimed":{"category":c.get('category','proof'),"text":c['text'],"design_ref":c.get('ref','DESIGN.md section 5')},
          "level_note":c['note'],"technique":c.get('technique',"contract-based deductive verification (sidecar contracts on the real functions; VCs by symbolic execution of the real source; z3/cvc5)")})
    else:
        m['not_applicable'].append({"property_id":pid,"reason":"check not built yet (build in progress; DESIGN.md section 9 gives the order)"})
json.dump(m,open('./MANIFEST.json','w'),indent=1)
print(len(m['checks']),'checks')
