#!/usr/bin/env python3
"""tools/seedcheck.py <seed-dir> [Cxx ...]

Confirms a seeded property-breaking change and runs checks against it, on a scratch copy of /repo
(never on /repo itself):
  1. demo.py passes on the unchanged tree and fails with patch.diff applied,
  2. the repository's test suite still passes with the change (the 3 always-failing tests aside),
  3. ./check <Cxx> (FXPV_REPO=<scratch>) for the listed properties (default: the property in meta.json / all).
Prints one line per step; exit 0 iff the change is confirmed AND at least one check reports a VIOLATION.
"""
import json
import os
import shutil
import subprocess
import sys
import tempfile

HERE = os.path.dirname(os.path.dirname(os.path.abspath(__file__)))
ALWAYS_FAIL = {'test_numpy_ufunc', 'test_issue_77_v0_4_8', 'test_pow'}


def sh(cmd, **kw):
    return subprocess.run(cmd, shell=True, capture_output=True, text=True, **kw)


def main():
    seed = os.path.abspath(sys.argv[1])
    props = sys.argv[2:]
    meta = {}
    if os.path.exists(os.path.join(seed, 'meta.json')):
        meta = json.load(open(os.path.join(seed, 'meta.json')))
    if not props:
        props = meta.get('checks') or [meta.get('property')] if meta.get('property') else []
    tmp = tempfile.mkdtemp(prefix='seedchk_')
    ev_dir = os.path.join(tmp, 'evidence')      # evidence of runs on the changed tree goes to the scratch directory
    try:
        clean = os.path.join(tmp, 'clean'); mut = os.path.join(tmp, 'mut')
        for d in (clean, mut):
            os.makedirs(d)
            sh('git -C /repo archive HEAD fxpmath tests | tar -x -C %s' % d)
        r = sh('cd %s && git init -q . && git apply --unsafe-paths %s' % (mut, os.path.join(seed, 'patch.diff')))
        if r.returncode != 0:
            r = sh('cd %s && patch -p1 < %s' % (mut, os.path.join(seed, 'patch.diff')))
        if r.returncode != 0:
            print('PATCH does not apply:', r.stderr[-300:]); return 2
        demo = os.path.join(seed, 'demo.py')
        d0 = sh('PYTHONPATH=%s /venv/bin/python %s' % (clean, demo))
        d1 = sh('PYTHONPATH=%s /venv/bin/python %s' % (mut, demo))
        print('demo on clean tree: exit %d ; with change: exit %d' % (d0.returncode, d1.returncode))
        t = sh('cd %s && PYTHONPATH=%s /venv/bin/python -m pytest -q -p no:cacheprovider --timeout=900 -q 2>&1 | tail -8' % (mut, mut))
        failed = [l for l in t.stdout.splitlines() if l.startswith('FAILED')]
        extra = [l for l in failed if not any(a in l for a in ALWAYS_FAIL)]
        print('test suite with change: %d failed (%d beyond the always-failing three)%s' % (len(failed), len(extra), (' ' + '; '.join(extra)) if extra else ''))
        confirmed = d0.returncode == 0 and d1.returncode != 0 and not extra
        print('CONFIRMED' if confirmed else 'NOT CONFIRMED')
        caught = []
        for p in props:
            env = dict(os.environ, FXPV_REPO=mut, FXPV_EVIDENCE_DIR=ev_dir)
            c = subprocess.run([os.path.join(HERE, 'check'), p], capture_output=True, text=True, env=env, cwd=HERE)
            lines = [l for l in c.stdout.splitlines() if l.startswith(('VIOLATION', 'CHECKER-ERROR'))]
            summary = [l for l in c.stdout.splitlines() if l.startswith(p + ' tier=')]
            print('check %s: exit %d ; %d VIOLATION/ERROR lines ; %s' % (p, c.returncode, len(lines), (summary[-1][:160] if summary else '')))
            for l in lines[:3]:
                print('    ' + l[:200])
                if l.startswith('VIOLATION'):
                    path = l.split('replay=')[1].split()[0]
                    try:
                        rp = json.load(open(os.path.join(HERE, path)))
                        print('      -> %s / %s cfg=%s inputs=%s confirmed=%s by=%s' % (rp['contract'], rp['obligation'], json.dumps(rp['config'])[:120], json.dumps(rp['inputs'])[:100], rp['confirmed_on_real_code'], rp['found_by']))
                    except Exception as e:
                        print('      (replay file unreadable: %s)' % e)
            if c.returncode == 1:
                caught.append(p)
        print('caught by: %s' % (caught or 'NONE'))
        return 0 if (confirmed and caught) else 1
    finally:
        shutil.rmtree(tmp, ignore_errors=True)


if __name__ == '__main__':
    sys.exit(main())
