#!/usr/bin/env python3
"""tools/covreport.py [per-contract-sample]  -- which lines of /repo/fxpmath are executed (symbolically or natively)
by a sample of every contract's configurations.  Diagnostic only (run with .venv/bin/python); prints uncovered
line ranges per function so that functions outside every contract are visible."""
import ast, os, sys, json
sys.path.insert(0, os.path.dirname(os.path.dirname(os.path.abspath(__file__))))
import coverage
repo = os.environ.get('FXPV_REPO', '/repo')
SHARD = os.environ.get('COV_SHARD')          # "i/n": run only every n-th contract, write a data file, no report
OUT = os.environ.get('COV_DIR', '/tmp/cov')
if len(sys.argv) > 1 and sys.argv[1] == 'combine':
    cov = coverage.Coverage(data_file=os.path.join(OUT, 'combined'), include=[repo + '/fxpmath/*'], config_file=False)
    cov.combine([os.path.join(OUT, f) for f in os.listdir(OUT) if f.startswith('shard.')], keep=True)
    data = cov.get_data()
    reg = {}
else:
    cov = coverage.Coverage(data_file=(os.path.join(OUT, 'shard.%s' % SHARD.replace('/', '_')) if SHARD else None), include=[repo + '/fxpmath/*'], config_file=False)
    cov.start()
    from fxpv import runner, harness
    reg = runner.load_contracts()
N = int(sys.argv[1]) if len(sys.argv) > 1 and sys.argv[1] != 'combine' else 25
names = sorted(reg)
if SHARD:
    i, n = map(int, SHARD.split('/'))
    names = names[i::n]
for name in names:
    c = reg[name]
    cfgs = list(c.configs('quick'))
    step = max(1, len(cfgs) // N)
    for cfg in cfgs[::step][:N]:
        try:
            harness.verify_config(name, cfg)
        except Exception as e:
            print('ERR', name, type(e).__name__, str(e)[:100])
    print('done', name, len(cfgs), file=sys.stderr)
if reg:
    cov.stop()
    if SHARD:
        cov.save()
        sys.exit(0)
    data = cov.get_data()
out = {}
for fn in sorted(data.measured_files()):
    ex = set(data.lines(fn) or [])
    src = open(fn).read()
    tree = ast.parse(src)
    print('==', fn)
    for node in ast.walk(tree):
        if isinstance(node, (ast.FunctionDef,)):
            body_lines = set()
            for st in node.body:
                for sub in ast.walk(st):
                    if isinstance(sub, ast.stmt) and not (isinstance(sub, ast.Expr) and isinstance(getattr(sub, 'value', None), ast.Constant)):
                        body_lines.add(sub.lineno)
            if not body_lines:
                continue
            miss = sorted(body_lines - ex)
            pct = 100 - 100 * len(miss) // len(body_lines)
            if miss:
                print('  %-28s %3d%%  missing %s' % (node.name, pct, miss[:30]))
