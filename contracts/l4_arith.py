"""Layer 3/4 contracts: arithmetic of fxpmath/functions.py through the Fxp operators
   (add, sub, mul with every sizing policy, out / out_like, raw and repr methods)."""
from fractions import Fraction
from fxpv.harness import Contract, contract
from specs.core import *
from contracts.common import *
from contracts.l2_core import MODES
from contracts.l3_fxp import LOWER


def fmt_add(x, y):
    (sx, wx, fx), (sy, wy, fy) = x, y
    ix, iy = wx - fx - int(sx), wy - fy - int(sy)
    signed = sx or sy
    n_int = max(ix, iy) + 1
    n_frac = max(fx, fy)
    return signed, int(signed) + n_int + n_frac, n_frac


def fmt_mul(x, y):
    (sx, wx, fx), (sy, wy, fy) = x, y
    return (sx or sy), wx + wy, fx + fy


def fmt_policy(policy, op, x, y):
    """result format of the sizing policies (signedness is always 'any operand signed')"""
    (sx, wx, fx), (sy, wy, fy) = x, y
    ix, iy = wx - fx - int(sx), wy - fy - int(sy)
    signed = sx or sy
    if policy == 'optimal':
        return fmt_mul(x, y) if op == 'mul' else fmt_add(x, y)
    if policy == 'same':
        n_int, n_frac = ix, fx
    elif policy == 'largest':
        n_int, n_frac = max(ix, iy), max(fx, fy)
    elif policy == 'smallest':
        n_int, n_frac = min(ix, iy), min(fx, fy)
    else:
        raise ValueError(policy)
    return signed, int(signed) + n_int + n_frac, n_frac


def exact_scaled(op, cx, fx, cy, fy, F):
    """exact result * 2^F for codes cx, cy (mathematical)"""
    if op == 'add':
        return scale2(cx, F - fx) + scale2(cy, F - fy)
    if op == 'sub':
        return scale2(cx, F - fx) - scale2(cy, F - fy)
    if op == 'mul':
        return scale2(cx * cy, F - fx - fy)
    raise ValueError(op)


def arith_formats(tier):
    out = []
    for s in (True, False):
        if tier == 'quick':
            for n in (1, 3):
                for f in (-1, 0, n, n + 1):
                    out.append((s, n, f))
            out += [(s, 8, 4), (s, 12, 0), (s, 20, 21), (s, 26, 13)]
        else:
            for n in (1, 2, 3, 4):
                for f in range(-1, n + 2):
                    out.append((s, n, f))
            for n in (8, 12, 20, 26):
                for f in sorted({-1, 0, n // 2, n, n + 1}):
                    out.append((s, n, f))
    return out


def apply_op(op, x, y, route='op', P=None):
    if route == 'func':          # the functions of fxpmath.functions (default method 'raw')
        return getattr(P.functions, op)(x, y)
    if route == 'np':            # NumPy ufuncs dispatched through __array_ufunc__
        return getattr(P.np, {'add': 'add', 'sub': 'subtract', 'mul': 'multiply'}[op])(x, y)
    if op == 'add': return x + y
    if op == 'sub': return x - y
    if op == 'mul': return x * y
    raise ValueError(op)


@contract
class ArithOptimal(Contract):
    """x + y, x - y, x * y with the default (optimal) sizing: result format follows the growth rules,
    the result equals the exact mathematical result (no rounding), no overflow / underflow flag; the one
    exception is a negative difference of two unsigned operands, which is the exact difference quantized
    into the unsigned result format.  Operands are unchanged and share no state with the result."""
    name = 'functions:add/sub/mul[optimal]'
    primary = ['C07']
    secondary_stride = 6
    layer = 5
    uses = LOWER
    props = {'format': ['C07', 'C02'], 'exact': ['C07', 'C19'], 'no_flags': ['C07'], 'unsigned_negative': ['C07'],
             'in_range': ['C02'], 'shape': ['C07'], 'operands_unchanged': ['C20', 'C07'], 'separate_state': ['C20'],
             'inaccuracy_propagates': ['C04'], 'config_inherited': ['C08'], 'no_exception': ['C07'], 'meta': ['C02']}

    def configs(self, tier):
        fm = arith_formats(tier)
        for x in fm:
            for y in fm:
                for op in ('add', 'sub', 'mul'):
                    s, w, f = fmt_policy('optimal', op, x, y)
                    if w > 53 or w < 1:
                        continue
                    for method in ('raw', 'repr'):
                        shapes = [([], [])]
                        if (tier == 'thorough' and x[1] <= 2 and y[1] <= 2) or (x[1] == 3 and y[1] == 3):
                            shapes += [([2], [2]), ([2], [])]
                        for shx, shy in shapes:
                            yield dict(op=op, x=list(x), y=list(y), method=method, shx=shx, shy=shy)
                        if x[1] == 3 and y[1] == 3 and x[0] == y[0] and x[2] <= 1 <= y[2]:
                            # 2-d operands, one or both in Fortran (transposed) memory order: the result is positional
                            for fox, foy in ((True, False), (True, True)):
                                yield dict(op=op, x=list(x), y=list(y), method=method, shx=[2, 2], shy=[2, 2], fox=fox, foy=foy)
                            # operands derived by the library itself: x.T of a transposed base, a shallow copy (flags travel with both)
                            yield dict(op=op, x=list(x), y=list(y), method=method, shx=[2, 2], shy=[2, 2], xder='T')
                            yield dict(op=op, x=list(x), y=list(y), method=method, shx=[2], shy=[2], xder='copy', yder='copy')
                        if method == 'raw':
                            # the same operation through fxpmath.functions, through the NumPy ufunc, and with a class-wide template
                            # of the opposite signedness installed (results are then built from a copy of the template and resized)
                            for route in ('func', 'np', 'template'):
                                yield dict(op=op, x=list(x), y=list(y), method=method, shx=[], shy=[], route=route)
                        # integer-typed operands (vdtype int: objects built from ints with n_frac <= 0); the value method computes on them
                        if method == 'repr' and (x[2] <= 0 or y[2] <= 0):
                            yield dict(op=op, x=list(x), y=list(y), method=method, shx=[], shy=[], vint=True)

    def inputs(self, cfg, D):
        sx, wx, fx = cfg['x']; sy, wy, fy = cfg['y']
        return {'cx': codes_in(D, 'cx', nelem(cfg['shx']), sx, cfg.get('widen_from') or wx), 'cy': codes_in(D, 'cy', nelem(cfg['shy']), sy, wy),
                'ix': D.bool('inacc_x'), 'iy': D.bool('inacc_y'),
                # operands may carry sticky overflow / underflow flags from their own history: the result must not inherit them
                'ox': D.bool('ovf_x'), 'ux': D.bool('unf_x'), 'oy': D.bool('ovf_y'), 'uy': D.bool('unf_y')}

    def run(self, cfg, P, inp):
        sx, wx, fx = cfg['x']; sy, wy, fy = cfg['y']
        mkx = (lambda **kw: derived_fxp(P, cfg['xder'], sx, wx, fx, inp['cx'], tuple(cfg['shx']), **kw)) if cfg.get('xder') else \
              (lambda **kw: make_fxp(P, sx, wx, fx, codes=inp['cx'], shape=tuple(cfg['shx']), forder=bool(cfg.get('fox')), **kw))
        mky = (lambda **kw: derived_fxp(P, cfg['yder'], sy, wy, fy, inp['cy'], tuple(cfg['shy']), **kw)) if cfg.get('yder') else \
              (lambda **kw: make_fxp(P, sy, wy, fy, codes=inp['cy'], shape=tuple(cfg['shy']), forder=bool(cfg.get('foy')), **kw))
        x = mkx(cfg={'op_method': cfg['method'], 'rounding': 'around'},
                status={'inaccuracy': inp['ix'], 'overflow': inp.get('ox', False), 'underflow': inp.get('ux', False)},
                vdtype=int if (cfg.get('vint') and fx <= 0) else float)
        y = mky(cfg={'overflow': 'wrap'},
                status={'inaccuracy': inp['iy'], 'overflow': inp.get('oy', False), 'underflow': inp.get('uy', False)},
                vdtype=int if (cfg.get('vint') and fy <= 0) else float)
        if cfg.get('from_item'):
            xa = make_fxp(P, sx, wx, fx, codes=[inp['cx'][0], 0], shape=(2,), cfg={'op_method': cfg['method'], 'rounding': 'around'}, vdtype=float)
            x = xa[0]
        if cfg.get('widen_from'):
            x = make_fxp(P, sx, cfg['widen_from'], fx, codes=inp['cx'], shape=tuple(cfg['shx']), cfg={'op_method': cfg['method'], 'rounding': 'around'}, vdtype=float)
            x.resize(n_word=wx)
        bx, by = dict(x.__dict__), dict(y.__dict__)
        vx0, vy0 = list(elems(x.val)), list(elems(y.val))
        route = cfg.get('route', 'op')
        if route == 'template':
            S_res = fmt_policy('optimal', cfg['op'], tuple(cfg['x']), tuple(cfg['y']))[0]
            P.Fxp.template = make_fxp(P, not S_res, 7, 1, codes=[0], shape=(), vdtype=float)
        try:
            z = apply_op(cfg['op'], x, y, route if route != 'template' else 'op', P)
        finally:
            P.Fxp.template = None
        unchanged = all(x.__dict__[k] is bx[k] for k in bx) and all(y.__dict__[k] is by[k] for k in by) \
            and same_elems(elems(x.val), vx0) and same_elems(elems(y.val), vy0)
        sep = (z is not x and z is not y and z.config is not x.config and z.config is not y.config and z.status is not x.status
               and z.status is not y.status and z.val is not x.val and z.val is not y.val and not shares_buffer(z.val, x.val) and not shares_buffer(z.val, y.val))
        o = obs_fxp(z)
        o.update(unchanged=unchanged, separate=sep, getval=z.get_val(), cfg_rounding=z.config.rounding, cfg_method=z.config.op_method)
        return o

    def post(self, cfg, inp, obs):
        if obs['exc']:
            return {}
        op = cfg['op']
        x, y = tuple(cfg['x']), tuple(cfg['y'])
        S, W, F = fmt_policy('optimal', op, x, y)
        lo, hi = range_of(S, W)
        out = {'format': And(obs['signed'] == S, obs['n_word'] == W, obs['n_frac'] == F, obs['n_int'] == W - F - int(S),
                             obs['dtype'] == fmt_str(S, W, F)),
               'meta': And(eq(M(obs['upper']), scale2(hi, -F)), eq(M(obs['lower']), scale2(lo, -F)), eq(M(obs['precision']), pow2(-F))),
               'operands_unchanged': obs['unchanged'], 'separate_state': obs['separate'],
               'config_inherited': And(obs['cfg_rounding'] == 'around', obs['cfg_method'] == cfg['method'], obs['overflow'] == 'saturate')}
        cz = [M(c) for c in elems(obs['val'])]
        cxs, cys = [M(c) for c in inp['cx']], [M(c) for c in inp['cy']]
        n = max(len(cxs), len(cys))
        out['shape'] = And(len(cz) == n, list(obs['val'].shape) == (cfg['shx'] if len(cxs) >= len(cys) else cfg['shy']))
        if len(cz) != n:
            return out
        unsigned_sub = (op == 'sub' and not S)
        st = obs['status']
        negs = []
        for i in range(n):
            cx = cxs[i if len(cxs) > 1 else 0]; cy = cys[i if len(cys) > 1 else 0]
            ex = exact_scaled(op, cx, x[2], cy, y[2], F)         # an integer for optimal sizing
            if unsigned_sub:
                neg = ex < 0
                negs.append(neg)
                out['exact[%d]' % i] = Implies(Not(neg), eq(cz[i], ex))
                out['unsigned_negative[%d]' % i] = Implies(neg, eq(cz[i], OVF(ex, S, W, 'saturate')))
            else:
                out['exact[%d]' % i] = eq(cz[i], ex)
            out['in_range[%d]' % i] = And(cz[i] >= lo, cz[i] <= hi)
        if unsigned_sub:
            anyneg = Or(*negs)
            out['no_flags'] = And(Not(B(st['overflow'])), Iff(B(st['underflow']), anyneg))
            out['inaccuracy_propagates'] = Implies(Or(B(inp['ix']), B(inp['iy'])), B(st['inaccuracy']))
        else:
            out['no_flags'] = And(Not(B(st['overflow'])), Not(B(st['underflow'])))
            out['inaccuracy_propagates'] = Iff(B(st['inaccuracy']), Or(B(inp['ix']), B(inp['iy'])))
        return out


# ==========================================================================================================
def imposed_formats(tier):
    out = []
    words = (2, 3, 8, 12) if tier == 'quick' else (2, 3, 4, 5, 8, 12)
    for s in (True, False):
        for n in words:
            top = n - int(s)
            fr = sorted({0, n // 2, top}) if (tier == 'quick' or n > 4) else range(0, top + 1)
            for f in fr:
                out.append((s, n, f))
    return out


@contract
class ArithImposed(Contract):
    """+, -, * into an imposed format (sizing same / largest / smallest, out=, out_like=): the result is the
    exact mathematical result quantized into that format as C01 prescribes, under the rounding and overflow
    modes of the configuration the result carries (first operand's, or out's / out_like's), flags set
    accordingly; raw and repr methods obey the same clause (hence agree)."""
    name = 'functions:add/sub/mul[imposed]'
    primary = ['C08']
    secondary_stride = 6
    layer = 5
    uses = LOWER
    allowed_exceptions = ('ValueError',)
    props = {'format': ['C08', 'C02'], 'code_eq_Q': ['C08', 'C03'], 'flag_overflow': ['C08', 'C04'], 'flag_underflow': ['C08', 'C04'],
             'returns_out': ['C08'], 'in_range': ['C02'], 'governing_config': ['C08'], 'operands_unchanged': ['C20'],
             'separate_state': ['C20'], 'no_exception': ['C08'], 'inaccuracy_propagates': ['C04'], 'flag_inaccuracy': ['C04', 'C08'], 'rejects_signed_into_unsigned': ['C08']}

    def configs(self, tier):
        fm = imposed_formats(tier)
        k = 0
        for i, x in enumerate(fm):
            for j, y in enumerate(fm):
                if tier == 'quick' and (i + 2 * j) % 4 != 0:
                    continue
                for op in ('add', 'sub', 'mul'):
                    for policy in ('same', 'largest', 'smallest'):
                        for method in ('raw', 'repr'):
                            k += 1
                            modes = MODES if tier == 'thorough' and x[1] <= 4 and y[1] <= 4 else [MODES[k % len(MODES)]]
                            for rule, mode in modes:
                                yield dict(op=op, x=list(x), y=list(y), policy=policy, target=None, method=method, rule=rule, mode=mode)
                            if k % 12 == 0:
                                # operands that are shallow copies (copy() / .T share status and configuration with their base)
                                rule, mode = modes[0]
                                yield dict(op=op, x=list(x), y=list(y), policy=policy, target=None, method=method, rule=rule, mode=mode, xder='copy')
                            if method == 'raw' and policy == 'same' and (i + j) % 3 == 0:
                                # a class-wide Config.template with OTHER modes is installed while the operation runs: the result
                                # still carries the first operand's configuration
                                rule, mode = MODES[(k + 2) % len(MODES)]
                                yield dict(op=op, x=list(x), y=list(y), policy=policy, target=None, method=method, rule=rule, mode=mode, cfg_template=True)
                            if method == 'repr' and (x[2] <= 0 or y[2] <= 0) and policy != 'largest':
                                rule, mode = MODES[(k + 1) % len(MODES)]
                                yield dict(op=op, x=list(x), y=list(y), policy=policy, target=None, method=method, rule=rule, mode=mode, vint=True)
        # out= and out_like= targets
        tg = [(True, 8, 4), (False, 8, 8), (True, 3, 0), (True, 12, 6), (False, 2, 1), (True, 16, 12)]
        k = 0
        for x in fm[::3]:
            for y in fm[1::4]:
                for op in ('add', 'sub', 'mul'):
                    for t in tg:
                        for kind in ('out', 'out_like'):
                            for method in ('raw', 'repr'):
                                k += 1
                                if tier == 'quick' and k % 3:
                                    continue
                                rule, mode = MODES[k % len(MODES)]
                                yield dict(op=op, x=list(x), y=list(y), policy='optimal', target=[kind] + list(t), method=method, rule=rule, mode=mode)

        # NumPy ufunc route with the configured output register / template (config.array_op_out, array_op_out_like).
        # (results of more than 53 bits reach the register through a float64 product in the library: outside the provable domain)
        k = 0
        for x, y in [((True, 8, 4), (True, 8, 3)), ((False, 6, 2), (True, 5, 0)), ((True, 12, 12), (False, 12, 0))]:
            for op in ('add', 'sub', 'mul'):
                for t in [(True, 16, 8), (False, 20, 4), (True, 8, 0)]:
                    for kind in ('array_out', 'array_out_like'):
                        for rule, mode in (MODES if x[1] <= 8 and tier == 'thorough' else [MODES[k % len(MODES)], ('trunc', 'wrap')]):
                            k += 1
                            yield dict(op=op, x=list(x), y=list(y), policy='optimal', target=[kind] + list(t), method='raw', rule=rule, mode=mode)

        # ... and results of more than 53 bits into a register with the SAME fraction length (pure integer hand-over: provable)
        # (same-signedness pairs below 2^63: mixed signedness and results of 64+ bits into narrow words are the open findings F7 / F6)
        for x, y, t in [((True, 32, 4), (True, 32, 4), (True, 16, 8)), ((True, 31, 3), (True, 30, 5), (True, 12, 8)), ((False, 30, 0), (False, 30, 6), (False, 10, 6))]:
            for op in ('mul',) if x[2] + y[2] == t[2] else ('add', 'sub'):
                for kind in ('array_out', 'array_out_like'):
                    for rule, mode in (('trunc', 'wrap'), ('around', 'saturate')):
                        yield dict(op=op, x=list(x), y=list(y), policy='optimal', target=[kind] + list(t), method='raw', rule=rule, mode=mode)

    def inputs(self, cfg, D):
        sx, wx, fx = cfg['x']; sy, wy, fy = cfg['y']
        d = {'cx': codes_in(D, 'cx', 1, sx, wx), 'cy': codes_in(D, 'cy', 1, sy, wy), 'ix': D.bool('inacc_x'), 'iy': D.bool('inacc_y')}
        if cfg['target']:
            d['st_out'] = sym_status(D, 'out')      # out: sticky flags of the receiving object; out_like: flags of the template (must NOT be inherited)
        return d

    def run(self, cfg, P, inp):
        sx, wx, fx = cfg['x']; sy, wy, fy = cfg['y']
        gov = {'rounding': cfg['rule'], 'overflow': cfg['mode']}
        other = {'rounding': 'ceil' if cfg['rule'] != 'ceil' else 'floor', 'overflow': 'wrap' if cfg['mode'] == 'saturate' else 'saturate'}
        tgt = cfg['target']
        xcfg = dict(gov if tgt is None else other); xcfg.update(op_method=cfg['method'], op_sizing=cfg['policy'])
        out = None
        if tgt is not None:
            out = make_fxp(P, tgt[1], tgt[2], tgt[3], codes=[0], shape=(), cfg=gov, status=inp.get('st_out'), vdtype=float)
            xcfg[{'out': 'op_out', 'out_like': 'op_out_like', 'array_out': 'array_op_out', 'array_out_like': 'array_op_out_like'}[tgt[0]]] = out
        if cfg.get('xder'):
            x = derived_fxp(P, cfg['xder'], sx, wx, fx, inp['cx'], (), cfg=xcfg, status={'inaccuracy': inp['ix']}, vdtype=float)
            y = derived_fxp(P, cfg['xder'], sy, wy, fy, inp['cy'], (), cfg=dict(other), status={'inaccuracy': inp['iy']}, vdtype=float)
        else:
            x = make_fxp(P, sx, wx, fx, codes=inp['cx'], shape=(), cfg=xcfg, status={'inaccuracy': inp['ix']}, vdtype=int if (cfg.get('vint') and fx <= 0) else float)
            y = make_fxp(P, sy, wy, fy, codes=inp['cy'], shape=(), cfg=dict(other), status={'inaccuracy': inp['iy']}, vdtype=int if (cfg.get('vint') and fy <= 0) else float)
        bx, by = dict(x.__dict__), dict(y.__dict__)
        vx0, vy0 = list(elems(x.val)), list(elems(y.val))
        if cfg.get('cfg_template'):
            P.Config.template = P.Config(**other)
        try:
            z = apply_op(cfg['op'], x, y, 'np' if (tgt and tgt[0].startswith('array_')) else 'op', P)
        finally:
            P.Config.template = None
        unchanged = all(x.__dict__[k] is bx[k] for k in bx) and all(y.__dict__[k] is by[k] for k in by) \
            and same_elems(elems(x.val), vx0) and same_elems(elems(y.val), vy0)
        sep = (z is not x and z is not y and z.config is not x.config and z.config is not y.config and z.status is not x.status
               and z.status is not y.status and not shares_buffer(z.val, x.val) and not shares_buffer(z.val, y.val))
        if out is not None and tgt[0] in ('out_like', 'array_out_like'):
            sep = sep and z is not out and z.config is not out.config and z.status is not out.status
        o = obs_fxp(z)
        o.update(unchanged=unchanged, separate=sep, returns_out=(z is out))
        return o

    def post(self, cfg, inp, obs):
        op = cfg['op']
        x, y = tuple(cfg['x']), tuple(cfg['y'])
        tgt = cfg['target']
        must_reject = tgt is not None and not tgt[1] and (x[0] or y[0]) and not tgt[0].startswith('array_')   # the array register converts (C10)
        if obs['exc']:
            # a signed result must not be stored silently into an unsigned out / out_like: documented rejection
            return {'rejects_signed_into_unsigned': obs['exc'] == 'ValueError' and must_reject}
        if must_reject:
            return {'rejects_signed_into_unsigned': False}
        if tgt is None:
            S, W, F = fmt_policy(cfg['policy'], op, x, y)
        else:
            S, W, F = tgt[1], tgt[2], tgt[3]
        lo, hi = range_of(S, W)
        out = {'format': And(obs['signed'] == S, obs['n_word'] == W, obs['n_frac'] == F, obs['n_int'] == W - F - int(S), obs['dtype'] == fmt_str(S, W, F)),
               'governing_config': And(obs['rounding'] == cfg['rule'], obs['overflow'] == cfg['mode']),
               'operands_unchanged': obs['unchanged'], 'separate_state': obs['separate']}
        if tgt is not None:
            out['returns_out'] = obs['returns_out'] == (tgt[0] in ('out', 'array_out'))
        cz = M(elems(obs['val'])[0])
        ex = exact_scaled(op, M(inp['cx'][0]), x[2], M(inp['cy'][0]), y[2], F)
        R = ROUND(ex, cfg['rule'])
        out['code_eq_Q'] = eq(cz, OVF(R, S, W, cfg['mode']))
        out['in_range'] = And(cz >= lo, cz <= hi)
        st = obs['status']
        o0 = inp.get('st_out') if (tgt and tgt[0] in ('out', 'array_out')) else None
        out['flag_overflow'] = Iff(B(st['overflow']), Or(R > hi, B(o0['overflow']) if o0 else False))
        out['flag_underflow'] = Iff(B(st['underflow']), Or(R < lo, B(o0['underflow']) if o0 else False))
        out['inaccuracy_propagates'] = Implies(Or(B(inp['ix']), B(inp['iy'])), B(st['inaccuracy']))
        # the inaccuracy flag is exact: raised iff an operand carried it, the stored value differs from the exact result,
        # or (out=) the receiving object already carried it
        if max(x[1], y[1]) + (min(x[1], y[1]) if op == 'mul' else 1) <= 53:
            # (beyond 53 bits the library's own inexactness test compares through doubles: only the propagation clause is claimed)
            out['flag_inaccuracy'] = Iff(B(st['inaccuracy']), Or(B(inp['ix']), B(inp['iy']), Not(eq(cz, ex)), B(o0['inaccuracy']) if o0 else False))
        return out

    def skip(self, cfg):
        return False


@contract
class Unary(Contract):
    """-x, +x, abs(x): a fresh object of x's format holding the exact result whenever it is representable
    (otherwise the result saturated into the format, with the matching flag)."""
    name = 'objects:Fxp.__neg__/__pos__/__abs__'
    layer = 5
    uses = LOWER
    props = {'format': ['C08', 'C02'], 'exact_when_representable': ['C08'], 'saturated_otherwise': ['C08', 'C02'], 'flags': ['C04'],
             'operand_unchanged': ['C20'], 'separate_state': ['C20'], 'no_exception': ['C08']}

    def configs(self, tier):
        fm = imposed_formats(tier) + [(True, 1, 0), (False, 1, 1), (True, 52, 10), (False, 52, 52)]
        for f in fm:
            for op in ('neg', 'pos', 'abs'):
                for shape in ([], [2]):
                    yield dict(x=list(f), op=op, shape=shape)

    def inputs(self, cfg, D):
        s, w, f = cfg['x']
        return {'c': codes_in(D, 'c', nelem(cfg['shape']), s, w)}

    def run(self, cfg, P, inp):
        s, w, f = cfg['x']
        x = make_fxp(P, s, w, f, codes=inp['c'], shape=tuple(cfg['shape']), cfg={'overflow': 'wrap', 'rounding': 'ceil'}, vdtype=float)
        bx = dict(x.__dict__); v0 = list(elems(x.val))
        z = {'neg': lambda: -x, 'pos': lambda: +x, 'abs': lambda: abs(x)}[cfg['op']]()
        o = obs_fxp(z)
        o.update(unchanged=all(x.__dict__[k] is bx[k] for k in bx) and same_elems(elems(x.val), v0),
                 separate=z is not x and z.config is not x.config and z.status is not x.status and not shares_buffer(z.val, x.val))
        return o

    def post(self, cfg, inp, obs):
        if obs['exc']:
            return {}
        s, w, f = cfg['x']
        lo, hi = range_of(s, w)
        out = {'format': And(obs['signed'] == s, obs['n_word'] == w, obs['n_frac'] == f, obs['dtype'] == fmt_str(s, w, f)),
               'operand_unchanged': obs['unchanged'], 'separate_state': obs['separate']}
        cz = [M(c) for c in elems(obs['val'])]
        exs = []
        for i, c in enumerate(inp['c']):
            c = M(c)
            ex = {'neg': -c, 'pos': c, 'abs': ite(c >= 0, c, -c)}[cfg['op']]
            exs.append(ex)
            rep = And(ex >= lo, ex <= hi)
            out['exact_when_representable[%d]' % i] = Implies(rep, eq(cz[i], ex))
            out['saturated_otherwise[%d]' % i] = Implies(Not(rep), eq(cz[i], ite(ex > hi, hi, lo)))
        st = obs['status']
        out['flags'] = And(Iff(B(st['overflow']), Or(*[e > hi for e in exs])), Iff(B(st['underflow']), Or(*[e < lo for e in exs])))
        return out


# ==========================================================================================================
def f7_safe(op, x, y):
    """format pairs on which the raw add/sub/mul paths are free of the open finding F7 (int64 wrap-around of
    an aligned operand or of the result, int64/uint64 -> float64 promotion, a NumPy integer scalar meeting a
    Python int >= 2^63, a Python-int scale factor >= 2^63)"""
    (sx, wx, fx), (sy, wy, fy) = x, y
    S, W, F = fmt_policy('optimal', op, x, y)
    objx, objy = wx >= 64, wy >= 64
    if op == 'mul':
        if wx + wy >= 64:
            return True          # raw_cast: both operands become Python ints
        return (sx == sy) or W <= 53
    if F >= 64:
        return True              # precision_cast: scale factors are object arrays -> Python-int arithmetic
    if objx and objy:
        return True
    if objx != objy:
        return False             # NumPy int64 scalar combined with a Python int beyond int64
    kx, ky = F - fx, F - fy
    if max(kx, ky) > 62:
        return False
    if sx != sy:
        return W <= 53           # int64 with uint64 promotes to float64
    # magnitudes of the aligned operands
    mx = (1 << (wx - 1 + kx)) if sx else (1 << (wx + kx))
    my = (1 << (wy - 1 + ky)) if sy else (1 << (wy + ky))
    if sx:
        return mx <= 2**63 and my <= 2**63 and mx + my <= 2**63
    if op == 'sub':
        # a negative unsigned difference wraps in uint64 and is only re-interpreted as negative (then saturated
        # to 0 with underflow) when the result is stored through the int64 path, i.e. for result words < 64
        return W <= 63 and mx <= 2**63 and my <= 2**63
    return mx <= 2**64 and my <= 2**64 and mx + my <= 2**64


@contract
class ArithWide(ArithOptimal):
    """C19: add, subtract, multiply with optimal sizing stay exact when the exact result needs more than 53 or
    more than 64 bits (operand words 2..70, results up to 256 bits, any signedness mix)."""
    name = 'functions:add/sub/mul[optimal, wide]'
    props = {'format': ['C19'], 'exact': ['C19', 'C07'], 'no_flags': ['C19'], 'unsigned_negative': ['C19'], 'in_range': ['C19', 'C02'],
             'shape': ['C19'], 'no_exception': ['C19']}
    primary = ['C19']

    def configs(self, tier):
        words = (8, 32, 33, 53, 60, 63, 64, 70) if tier == 'quick' else (2, 8, 31, 32, 33, 52, 53, 54, 60, 62, 63, 64, 65, 70)
        fm = []
        for s in (True, False):
            for n in words:
                for f in sorted({0, n // 2, n}):
                    fm.append((s, n, f))
        from fxpv.harness import open_findings
        skip_unsafe = 'F7' in open_findings()
        k = 0
        for x in fm:
            for y in fm:
                for op in ('add', 'sub', 'mul'):
                    S, W, F = fmt_policy('optimal', op, x, y)
                    if W <= 53 or W > 256:
                        continue
                    k += 1
                    if tier == 'quick' and k % 3:
                        continue
                    if skip_unsafe and not f7_safe(op, x, y):
                        continue
                    yield dict(op=op, x=list(x), y=list(y), method='raw', shx=[], shy=[])
                    if k % 4 == 0:
                        yield dict(op=op, x=list(x), y=list(y), method='raw', shx=[], shy=[], route=('func', 'np')[(k // 4) % 2])
                    if k % 21 == 0:
                        # two-element arrays (the per-element Python-int conversion of object arrays)
                        yield dict(op=op, x=list(x), y=list(y), method='raw', shx=[2], shy=[2])
                    if x[1] >= 64 and k % 5 == 0:
                        # the wide operand is an ELEMENT read from a wide array (x_arr[0]): it must still be Python-int backed
                        yield dict(op=op, x=list(x), y=list(y), method='raw', shx=[], shy=[], from_item=True)
                    if x[1] >= 64 and k % 3 == 0:
                        # the wide operand was created narrower and widened by resize(): it must have moved to Python-int storage
                        yield dict(op=op, x=list(x), y=list(y), method='raw', shx=[], shy=[], widen_from=50)
                    if 'F21' not in open_findings() and k % 5 == 0:
                        # open finding F21: the value ('repr') method computes on float64 / int64 values
                        yield dict(op=op, x=list(x), y=list(y), method='repr', shx=[], shy=[], vint=bool(k % 2))

    def post(self, cfg, inp, obs):
        out = ArithOptimal.post(self, cfg, inp, obs)
        # upper / lower are doubles and the inaccuracy test compares through doubles: both are exact only for
        # words <= 53 bits (C07's domain); C19 is about the codes
        for k in ('meta', 'inaccuracy_propagates', 'config_inherited', 'operands_unchanged', 'separate_state'):
            out.pop(k, None)
        return out


# ==========================================================================================================
def best_format_of_constant(c):
    """(signed=True, n_int, n_frac) of Fxp(c) for a dyadic constant c: fewest fraction bits, then fewest integer bits"""
    c = Fraction(c)
    f = 0
    while (c * (1 << f)).denominator != 1:
        f += 1
    i = 0
    while not (-(1 << i) <= c < (1 << i)):
        i += 1
    return True, i, f


@contract
class ArithConst(Contract):
    """x op c and c op x for a plain number c: c is first converted to a fixed-point constant according to
    config.op_input_size ('same': quantized into x's format under x's modes; 'best': its own minimal format),
    then the result is the exact result quantized into the format of the FIRST operand (const_op_sizing = 'same')
    under the configuration of the first operand."""
    name = 'objects:Fxp.__add__/__sub__/__mul__[constant operand]'
    layer = 5
    uses = LOWER
    props = {'*': ['C08'], 'in_range': ['C02'], 'code_eq_Q': ['C08', 'C07']}      # C07: the reflected / constant forms of +, -, * are the same operations
    primary = ['C08']
    secondary_stride = 3

    CONSTS = [1.5, -0.75, 2, 0.125, 3, -1, 100.0, 0]

    def configs(self, tier):
        fm = [(True, 8, 4), (False, 8, 3), (True, 3, 0), (True, 12, 6), (False, 2, 1)] if tier == 'quick' else imposed_formats('quick')
        k = 0
        for x in fm:
            for ci in range(len(self.CONSTS)):
                for op in ('add', 'sub', 'mul', 'rsub', 'radd', 'rmul'):
                    for size in ('same', 'best'):
                        for method in ('raw', 'repr'):
                            k += 1
                            rule, mode = MODES[k % len(MODES)]
                            yield dict(x=list(x), ci=ci, op=op, size=size, method=method, rule=rule, mode=mode)

    def inputs(self, cfg, D):
        s, n, f = cfg['x']
        return {'cx': codes_in(D, 'cx', 1, s, n)}

    def run(self, cfg, P, inp):
        s, n, f = cfg['x']
        c = self.CONSTS[cfg['ci']]
        x = make_fxp(P, s, n, f, codes=inp['cx'], shape=(), vdtype=float,
                     cfg={'rounding': cfg['rule'], 'overflow': cfg['mode'], 'op_input_size': cfg['size'], 'op_method': cfg['method']})
        op = cfg['op']
        if op == 'add': z = x + c
        elif op == 'sub': z = x - c
        elif op == 'mul': z = x * c
        elif op == 'rsub': z = c - x
        elif op == 'radd': z = c + x
        else: z = c * x
        return obs_fxp(z)

    def post(self, cfg, inp, obs):
        if obs['exc']:
            return {}
        s, n, f = cfg['x']
        c = Fraction(self.CONSTS[cfg['ci']])
        n_int_x = n - f - int(s)
        cx = M(inp['cx'][0])
        vx = scale2(cx, -f)
        if cfg['size'] == 'same':
            # constant quantized into x's format under x's modes
            cc = Q(c, s, n, f, cfg['rule'], cfg['mode'])
            vc = scale2(cc, -f)
            cs, ci_, cf = s, n_int_x, f
            crule, cmode = cfg['rule'], cfg['mode']
        else:
            cs, ci_, cf = best_format_of_constant(c)
            vc = c
            crule, cmode = 'trunc', 'saturate'       # a fresh Fxp(c) carries the default configuration
        first_is_const = cfg['op'] == 'rsub'
        S = s or cs
        if first_is_const:
            NI, NF, rule, mode = ci_, cf, crule, cmode
        else:
            NI, NF, rule, mode = n_int_x, f, cfg['rule'], cfg['mode']
        W = int(S) + NI + NF
        base = {'add': vx + vc, 'radd': vx + vc, 'sub': vx - vc, 'rsub': vc - vx, 'mul': vx * vc, 'rmul': vx * vc}[cfg['op']]
        lo, hi = range_of(S, W)
        out = {'format': And(obs['signed'] == S, obs['n_word'] == W, obs['n_frac'] == NF, obs['dtype'] == fmt_str(S, W, NF)),
               'governing_config': And(obs['rounding'] == rule, obs['overflow'] == mode)}
        cz = M(elems(obs['val'])[0])
        R = ROUND(scale2(base, NF), rule)
        out['code_eq_Q'] = eq(cz, OVF(R, S, W, mode))
        out['in_range'] = And(cz >= lo, cz <= hi)
        st = obs['status']
        out['flag_overflow'] = Iff(B(st['overflow']), R > hi)
        out['flag_underflow'] = Iff(B(st['underflow']), R < lo)
        return out
