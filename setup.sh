#!/bin/sh
# Builds /verif/.venv offline: CPython 3.12 (from /venv) + z3/cvc5/jsonschema wheels + repo's numpy via .pth overlay.
set -e
cd "$(dirname "$0")"
if [ -x .venv/bin/python ] && .venv/bin/python -c "import z3, numpy, jsonschema" 2>/dev/null; then
  exit 0
fi
rm -rf .venv
/venv/bin/python -m venv .venv
PIP_NO_INDEX=1 .venv/bin/python -m pip install -q --no-index --find-links /opt/veriftools/wheels z3-solver cvc5 jsonschema 2>&1 | grep -v WARNING || true
SP=$(.venv/bin/python -c "import sysconfig; print(sysconfig.get_paths()['purelib'])")
echo "import site; site.addsitedir('/venv/lib/python3.12/site-packages')" > "$SP/_repo_overlay.pth"
.venv/bin/python -c "import z3, numpy, jsonschema; print('venv ok', z3.get_version_string(), numpy.__version__)"
