"""NumPy reductions and linear algebra on fixed-point arrays (C15): the library's glue (sizing, scaling,
dispatch, result construction) is verified against the assumed NumPy reduction contracts."""
from fractions import Fraction
import itertools
from fxpv.harness import Contract, contract
from specs.core import *
from contracts.common import *
from contracts.l3_fxp import LOWER


def _idx(shape):
    return list(itertools.product(*[range(s) for s in shape]))


def _reduce_axis(shape, vals, axis, f):
    """apply f(list) along axis of a row-major flat list; returns (out_shape, out_flat)"""
    if axis is None:
        return (), [f(list(vals))]
    idx = _idx(shape)
    pos = {ix: k for k, ix in enumerate(idx)}
    out_shape = tuple(s for a, s in enumerate(shape) if a != axis)
    out = []
    for o in _idx(out_shape):
        line = []
        for t in range(shape[axis]):
            ix = list(o); ix.insert(axis, t)
            line.append(vals[pos[tuple(ix)]])
        out.append(f(line))
    return out_shape, out


def _cumulative(shape, vals, axis, op):
    if axis is None:
        acc = None; out = []
        for v in vals:
            acc = v if acc is None else op(acc, v)
            out.append(acc)
        return (len(vals),), out
    idx = _idx(shape)
    pos = {ix: k for k, ix in enumerate(idx)}
    out = [None] * len(vals)
    other = tuple(s for a, s in enumerate(shape) if a != axis)
    for o in _idx(other):
        acc = None
        for t in range(shape[axis]):
            ix = list(o); ix.insert(axis, t)
            k = pos[tuple(ix)]
            acc = vals[k] if acc is None else op(acc, vals[k])
            out[k] = acc
    return tuple(shape), out


def mmax(xs):
    r = xs[0]
    for v in xs[1:]:
        r = ite(v > r, v, r)
    return r


def mmin(xs):
    r = xs[0]
    for v in xs[1:]:
        r = ite(v < r, v, r)
    return r


def msum(xs):
    r = xs[0]
    for v in xs[1:]:
        r = r + v
    return r


def mprod(xs):
    r = xs[0]
    for v in xs[1:]:
        r = r * v
    return r


@contract
class Reductions(Contract):
    """sum, cumsum, prod, cumprod, dot, trace, max, min, sort, clip, transpose, diagonal on fixed-point arrays,
    through the numpy function or the equivalent method, return fixed-point objects whose values are exactly
    the mathematical results on the element values; with optimal sizing the accumulating ones never overflow."""
    name = 'functions:reductions'
    layer = 5
    uses = tuple(u for u in LOWER if u != 'utils:clip')     # functions.clip calls utils.clip with float bounds: real body
    props = {'*': ['C15'], 'in_range': ['C15', 'C02'], 'operand_unchanged': ['C20'], 'separate_state': ['C20'], 'inaccuracy_propagates': ['C04']}

    def configs(self, tier):
        if tier == 'quick':
            shapes = [(1,), (2,), (3,), (2, 2), (2, 3)]
            fms = [(True, 4, 2), (False, 3, 0), (True, 8, 9), (False, 5, -1), (True, 4, -2)]
        else:
            shapes = [(1,), (2,), (3,), (4,), (5,), (2, 2), (2, 3), (3, 2), (3, 3)]
            fms = [(True, 1, 0), (True, 4, 2), (False, 3, 0), (True, 8, 9), (False, 8, -1), (True, 12, 6), (True, 4, -2)]
        for fm in fms:
            for shape in shapes:
                axes = [None] + list(range(len(shape)))
                for fn in ('sum', 'cumsum', 'prod', 'cumprod', 'max', 'min', 'sort', 'transpose', 'clip', 'trace', 'diagonal'):
                    n = nelem(shape)
                    if fn in ('trace', 'diagonal') and len(shape) != 2:
                        continue
                    if fn in ('prod', 'cumprod') and n * fm[1] > 53:
                        continue
                    if fn == 'sort' and max(shape) > 3:
                        continue
                    if fn in ('trace', 'diagonal') and shape[0] != shape[1]:
                        for off in (1, -1):
                            for route in ('np', 'method'):
                                yield dict(fn=fn, fmt=list(fm), shape=list(shape), axis=None, route=route, offset=off)
                    for axis in (axes if fn in ('sum', 'cumsum', 'prod', 'cumprod', 'max', 'min') else ([-1] if fn == 'sort' else [None])):
                        if fn == 'cumprod' and axis is not None and len(shape) > 1:
                            pass
                        for route in ('np', 'method'):
                            yield dict(fn=fn, fmt=list(fm), shape=list(shape), axis=axis, route=route)
                        if fm[2] <= 0 and axis is None and len(shape) == 1:
                            yield dict(fn=fn, fmt=list(fm), shape=list(shape), axis=axis, route='np', vint=True)      # integer-typed array (vdtype int)
        for fm in fms[:2]:
            for fn in ('sum', 'max'):
                yield dict(fn=fn, fmt=list(fm), shape=[2], axis=None, route='np', with_out=True)
        # sort over all elements (axis=None: flattened) and along the first axis
        for fm in fms[:2]:
            for shape in ((3,), (2, 2)):
                yield dict(fn='sort', fmt=list(fm), shape=list(shape), axis=None, route='np')
                yield dict(fn='sort', fmt=list(fm), shape=list(shape), axis=None, route='func')
            for route in ('np', 'method'):
                yield dict(fn='sort', fmt=list(fm), shape=[2, 2], axis=0, route=route)
        # 2-d operands in Fortran (column-major / transposed) memory order: results are positional, not memory-order dependent
        for fm in (fms[:1] if tier == 'quick' else fms[:3]):
            for shape in ((2, 2), (2, 3)):
                for fn in ('sum', 'cumsum', 'prod', 'cumprod', 'max', 'min', 'sort', 'transpose', 'clip', 'trace', 'diagonal'):
                    if fn in ('prod', 'cumprod') and nelem(shape) * fm[1] > 53:
                        continue
                    if fn in ('trace', 'diagonal') and shape[0] != shape[1]:
                        continue
                    for axis in (([None, 0, 1] if fn in ('sum', 'cumsum', 'prod', 'cumprod', 'max', 'min') else ([-1] if fn == 'sort' else [None]))):
                        for route in ('np', 'method'):
                            yield dict(fn=fn, fmt=list(fm), shape=list(shape), axis=axis, route=route, forder=True)
                        if shape == (2, 3):
                            yield dict(fn=fn, fmt=list(fm), shape=list(shape), axis=axis, route='np', der='T')      # the operand is x.T of a transposed base (stale caches)
        # a bound that is exactly zero (and integer bounds) on either side
        for fm in fms[:3]:
            for bounds in ([0, 1.5], [-0.75, 0], [0, 0], [-1, 1]):
                for route in ('np', 'method'):
                    yield dict(fn='clip', fmt=list(fm), shape=[2], axis=None, route=route, clip_bounds=bounds)
        for fm in [m for m in fms if m[2] >= 2][:2]:      # limits -0.75 / 1.5 representable in the operand's format
            yield dict(fn='clip', fmt=list(fm), shape=[2], axis=None, route='np', clip_out=True)
        # dot products
        for fx, fy in [((True, 4, 2), (False, 3, 1)), ((False, 3, 0), (False, 3, 3)), ((True, 6, 3), (True, 6, 6))]:
            for shx, shy in [((2,), (2,)), ((3,), (3,)), ((2, 2), (2, 2)), ((2, 2), (2,)), ((2, 3), (3, 2))] if tier == 'thorough' else [((2,), (2,)), ((3,), (3,)), ((2, 2), (2, 2))]:
                for route in ('np', 'method'):
                    yield dict(fn='dot', fmt=list(fx), fmt_y=list(fy), shape=list(shx), shape_y=list(shy), axis=None, route=route)

    def inputs(self, cfg, D):
        s, n, f = cfg['fmt']
        d = {'c': codes_in(D, 'c', nelem(cfg['shape']), s, n), 'ix': D.bool('inacc_x')}
        if cfg['fn'] == 'dot':
            s2, n2, f2 = cfg['fmt_y']
            d['cy'] = codes_in(D, 'cy', nelem(cfg['shape_y']), s2, n2)
        return d

    def run(self, cfg, P, inp):
        s, n, f = cfg['fmt']
        if cfg.get('der'):
            x = derived_fxp(P, cfg['der'], s, n, f, inp['c'], tuple(cfg['shape']), vdtype=float, status={'inaccuracy': inp['ix']})
        else:
            x = make_fxp(P, s, n, f, codes=inp['c'], shape=tuple(cfg['shape']), vdtype=int if cfg.get('vint') else float, status={'inaccuracy': inp['ix']},
                         forder=bool(cfg.get('forder')))
        b = dict(x.__dict__); v0 = list(elems(x.val))
        fn, axis, route = cfg['fn'], cfg['axis'], cfg['route']
        np = P.np
        if fn == 'dot':
            s2, n2, f2 = cfg['fmt_y']
            y = make_fxp(P, s2, n2, f2, codes=inp['cy'], shape=tuple(cfg['shape_y']), vdtype=float)
            z = np.dot(x, y) if route == 'np' else x.dot(y)
        elif fn in ('sum', 'cumsum', 'prod', 'cumprod', 'max', 'min'):
            if cfg.get('with_out'):
                # out= object wide enough to hold the result exactly: the result is that object and carries the operand's inaccuracy flag
                zo = make_fxp(P, True, 40, max(f, 0) + 2, codes=[0], shape=(), vdtype=float)
                z = getattr(np, fn)(x, axis=axis, out=zo)
            else:
                z = getattr(np, fn)(x, axis=axis) if route == 'np' else getattr(x, fn)(axis=axis)
        elif fn == 'sort':
            if route == 'np':
                z = np.sort(x, axis=axis)
            elif route == 'func':
                z = P.functions.sort(x, axis=axis)
            else:
                z = x.deepcopy(); z.sort(axis=axis)
        elif fn == 'transpose':
            z = np.transpose(x) if route == 'np' else x.transpose()
        elif fn == 'clip':
            lo, hi = cfg.get('clip_bounds', (-0.75, 1.5))
            if cfg.get('clip_out'):
                # out= object with another fraction length: the limits are still values, not codes of the output format
                zo = make_fxp(P, True, 12, f + 2, codes=[0] * nelem(cfg['shape']), shape=tuple(cfg['shape']), vdtype=float)
                z = np.clip(x, lo, hi, out=zo)
            else:
                z = np.clip(x, lo, hi) if route == 'np' else x.clip(lo, hi)
        elif fn == 'trace':
            off = cfg.get('offset', 0)
            z = np.trace(x, offset=off) if route == 'np' else x.trace(offset=off)
        elif fn == 'diagonal':
            off = cfg.get('offset', 0)
            z = np.diagonal(x, offset=off) if route == 'np' else x.diagonal(offset=off)
        o = obs_fxp(z)
        o.update(unchanged=all(x.__dict__[k] is b[k] for k in b) and same_elems(elems(x.val), v0),
                 separate=z is not x and z.config is not x.config and z.status is not x.status and not shares_buffer(z.val, x.val))
        return o

    def post(self, cfg, inp, obs):
        if obs['exc']:
            return {}
        s, n, f = cfg['fmt']
        fn, axis = cfg['fn'], cfg['axis']
        shape = tuple(cfg['shape'])
        vals = [scale2(M(c), -f) for c in inp['c']]
        S, W, F = obs['signed'], obs['n_word'], obs['n_frac']
        out = {'operand_unchanged': obs['unchanged'], 'separate_state': obs['separate'],
               'format_valid': And(isinstance(W, int), isinstance(F, int), obs['n_int'] == W - F - int(S), obs['dtype'] == fmt_str(S, W, F))}
        if fn == 'sum':
            eshape, exp = _reduce_axis(shape, vals, axis, msum)
        elif fn == 'prod':
            eshape, exp = _reduce_axis(shape, vals, axis, mprod)
        elif fn == 'max':
            eshape, exp = _reduce_axis(shape, vals, axis, mmax)
        elif fn == 'min':
            eshape, exp = _reduce_axis(shape, vals, axis, mmin)
        elif fn == 'cumsum':
            eshape, exp = _cumulative(shape, vals, axis, lambda a, b: a + b)
        elif fn == 'cumprod':
            eshape, exp = _cumulative(shape, vals, axis, lambda a, b: a * b)
        elif fn in ('trace', 'diagonal'):
            off = cfg.get('offset', 0)
            dg = [vals[i * shape[1] + (i + off)] for i in range(shape[0]) if 0 <= i + off < shape[1]]
            if fn == 'trace':
                eshape, exp = (), [msum(dg)]
            else:
                eshape, exp = (len(dg),), dg
        elif fn == 'transpose':
            idx = _idx(shape)
            pos = {ix: k for k, ix in enumerate(idx)}
            eshape = tuple(reversed(shape))
            exp = [vals[pos[tuple(reversed(o))]] for o in _idx(eshape)]
        elif fn == 'clip':
            blo, bhi = [Fraction(b) for b in cfg.get('clip_bounds', (-0.75, 1.5))]
            eshape, exp = shape, [ite(v > bhi, bhi, ite(v < blo, blo, v)) for v in vals]
        elif fn == 'sort':
            def srt(line):
                if len(line) == 1: return line
                if len(line) == 2: return [mmin(line), mmax(line)]
                if len(line) == 3:
                    lo_, hi_ = mmin(line), mmax(line)
                    return [lo_, msum(line) - lo_ - hi_, hi_]
                a = list(line)                      # longer lines: a compare-exchange (bubble) network
                for i in range(len(a)):
                    for j in range(len(a) - 1 - i):
                        a[j], a[j + 1] = mmin([a[j], a[j + 1]]), mmax([a[j], a[j + 1]])
                return a
            if len(shape) == 1 and axis is None:
                eshape, exp = shape, srt(vals)
            elif axis is None:
                eshape, exp = (len(vals),), srt(vals)          # np.sort(x, axis=None): the flattened array, sorted
            elif len(shape) == 2 and axis == 0:
                eshape = shape; exp = [None] * len(vals)
                for cidx in range(shape[1]):
                    col = srt([vals[r * shape[1] + cidx] for r in range(shape[0])])
                    for r in range(shape[0]):
                        exp[r * shape[1] + cidx] = col[r]
            elif len(shape) == 1:
                eshape, exp = shape, srt(vals)
            else:
                eshape = shape; exp = []
                for r in range(shape[0]):
                    exp += srt(vals[r * shape[1]:(r + 1) * shape[1]])
        elif fn == 'dot':
            s2, n2, f2 = cfg['fmt_y']
            ys = [scale2(M(c), -f2) for c in inp['cy']]
            shy = tuple(cfg['shape_y'])
            if len(shape) == 1 and len(shy) == 1:
                eshape, exp = (), [msum([a * b for a, b in zip(vals, ys)])]
            elif len(shape) == 2 and len(shy) == 2:
                eshape = (shape[0], shy[1]); exp = []
                for i in range(shape[0]):
                    for j in range(shy[1]):
                        exp.append(msum([vals[i * shape[1] + t] * ys[t * shy[1] + j] for t in range(shape[1])]))
            else:
                eshape = (shape[0],); exp = []
                for i in range(shape[0]):
                    exp.append(msum([vals[i * shape[1] + t] * ys[t] for t in range(shape[1])]))
        got = [M(c) for c in elems(obs['val'])]
        out['shape'] = And(list(obs['val'].shape) == list(eshape), len(got) == len(exp))
        if len(got) != len(exp) or not isinstance(F, int):
            return out
        lo, hi = range_of(S, W)
        for i, (g, e) in enumerate(zip(got, exp)):
            if fn == 'clip':
                # the clip bounds need not be representable: the result is the clamped value quantized (trunc) into x's format
                out['value[%d]' % i] = eq(g, ROUND(scale2(e, F), 'trunc'))
            else:
                out['value[%d]' % i] = eq(scale2(g, -F), e)
            out['in_range[%d]' % i] = And(g >= lo, g <= hi)
        st = obs['status']
        out['no_overflow'] = And(Not(B(st['overflow'])), Not(B(st['underflow'])))
        out['inaccuracy_propagates'] = Implies(B(inp['ix']), B(st['inaccuracy']))
        return out



# ==========================================================================================================
@contract
class MatmulBounded(Contract):
    """BOUNDED stand-in for the free-form NumPy route (np.matmul goes through
    __array_ufunc__ -> _wrapped_numpy_func -> __array_wrap__, i.e. floats and size inference): the result is a
    fixed-point object whose values are exactly the mathematical matrix product and agree with np.dot / x.dot,
    for every signedness mix, extreme and seeded-random codes."""
    name = 'functions:matmul (bounded)'
    layer = 5
    native_only = True
    props = {'*': ['C15']}

    def configs(self, tier):
        fms = [(True, 4, 2), (False, 3, 0), (True, 6, 3), (False, 5, 5)] if tier == 'quick' else [(True, 4, 2), (False, 3, 0), (True, 6, 3), (False, 5, 5), (True, 8, 0), (False, 8, 4), (True, 12, 6)]
        for fx in fms:
            for fy in fms:
                yield dict(fx=list(fx), fy=list(fy))

    def run(self, cfg, P, inp):
        import os, random
        from fractions import Fraction
        np = P.np
        sx, nx, fx = cfg['fx']; sy, ny, fy = cfg['fy']
        rng = random.Random(int(os.environ.get('VERIF_SEED', '0') or 0) * 7919 + nx * 31 + ny)
        lox, hix = range_of(sx, nx); loy, hiy = range_of(sy, ny)
        bad = []; cases = 0
        def vals(code, f): return Fraction(code) * pow2(-f)
        for (shx, shy) in (((2, 2), (2, 2)), ((2, 3), (3, 2)), ((2,), (2,)), ((2, 2), (2,))):
            for trial in range(6):
                pick = lambda lo, hi: [lo, hi][trial % 2] if trial < 2 else (rng.choice([lo, hi]) if trial < 4 else rng.randint(lo, hi))
                cx = [pick(lox, hix) for _ in range(nelem(shx))]; cy = [pick(loy, hiy) for _ in range(nelem(shy))]
                if trial == 1: cy = [loy if hiy else 0 for _ in cy]
                x = P.Fxp(np.array(cx).reshape(shx), sx, nx, fx, raw=True); y = P.Fxp(np.array(cy).reshape(shy), sy, ny, fy, raw=True)
                ex = np.array([vals(c, fx) for c in cx], dtype=object).reshape(shx).dot(np.array([vals(c, fy) for c in cy], dtype=object).reshape(shy))
                exl = [Fraction(v) for v in np.asarray(ex, dtype=object).ravel()] if hasattr(ex, 'ravel') else [Fraction(ex)]
                routes = [('matmul', np.matmul(x, y)), ('np_dot', np.dot(x, y)), ('method_dot', x.dot(y))]
                if shx == (2, 2) and shy == (2, 2):
                    # operands that went through a transposition / an in-place sort first (cached attributes are stale then):
                    # (A^T)^T B, and sorted rows
                    xt = P.Fxp(np.array(cx).reshape(shx).T.copy(), sx, nx, fx, raw=True).T
                    routes.append(('matmul', np.matmul(xt, y)))
                    routes.append(('np_dot', np.dot(xt, y)))
                for name, z in routes:
                    cases += 1
                    got = [Fraction(c) * pow2(-z.n_frac) for c in (z.val.ravel().tolist() if z.val.ndim else [z.val.item()])]
                    ok = got == exl and isinstance(z, P.Fxp) and not z.status['overflow'] and not z.status['underflow']
                    if not ok and len(bad) < 5:
                        bad.append([name, list(shx), list(shy), cx, cy, [str(g) for g in got], [str(e) for e in exl], z.dtype])
        return {'bad': bad, 'cases': cases}

    def post(self, cfg, inp, obs):
        if obs['exc']:
            return {}
        failed = {b[0] for b in obs['bad']}
        out = {k: (k not in failed) for k in ('matmul', 'np_dot', 'method_dot')}
        out['details'] = len(obs['bad']) == 0
        return out
