"""Layer 2 contracts: the storing chain of fxpmath/objects.py
   Fxp._get_conv_factor, Fxp._round, Fxp._overflow_action, Fxp.set_val (+ get_val read-back)."""
from fractions import Fraction
from fxpv.harness import Contract, contract
from specs.core import *
from contracts.common import *

MODES = [(r, o) for r in ROUNDINGS for o in OVERFLOWS]


def scalar_shapes(tier):
    return [(), (2,)] if tier == 'quick' else [(), (1,), (2,), (3,), (2, 2)]


# ==========================================================================================================
@contract
class ConvFactor(Contract):
    """_get_conv_factor(raw): 1 if raw else exactly 2^n_frac (the reciprocal being the exact double 2^-k
    for negative n_frac)."""
    name = 'objects:Fxp._get_conv_factor'
    layer = 2
    props = {'*': ['C01', 'C16']}

    def configs(self, tier):
        fr = range(-12, 70) if tier == 'quick' else range(-64, 300)
        for f in fr:
            for raw in (False, True):
                yield dict(n_frac=f, raw=raw)

    def run(self, cfg, P, inp):
        x = make_fxp(P, True, max(1, cfg['n_frac'] + 1), cfg['n_frac'])
        cf = x._get_conv_factor(cfg['raw'])
        return {'cf': cf, 'is_int': isinstance(cf, int)}

    def post(self, cfg, inp, obs):
        if obs['exc']:
            return {}
        want = 1 if cfg['raw'] else pow2(cfg['n_frac'])
        return {'value': eq(M(obs['cf']), want),
                'kind': obs['is_int'] == (cfg['raw'] or cfg['n_frac'] >= 0)}

    def stubs(self, P):
        def _get_conv_factor(self, raw=False):
            if raw:
                return 1
            return (1 << self.n_frac) if self.n_frac >= 0 else 1 / (1 << -self.n_frac)
        return {(P.Fxp, '_get_conv_factor'): _get_conv_factor}


# ==========================================================================================================
@contract
class Round(Contract):
    """_round(val, method): float64 data are rounded elementwise by the configured rule (result an
    integral double); integer and object data are returned unchanged."""
    name = 'objects:Fxp._round'
    layer = 2
    props = {'*': ['C01', 'C05']}

    def configs(self, tier):
        for rule in ROUNDINGS:
            for carrier in ('f64', 'i64', 'u64', 'objint', 'objfloat', 'pyint', 'f64scalar'):
                shapes = scalar_shapes(tier) if carrier not in ('pyint', 'f64scalar') else [()]
                for shape in shapes:
                    yield dict(rule=rule, carrier=carrier, shape=list(shape))

    def inputs(self, cfg, D):
        n = nelem(cfg['shape'])
        c = cfg['carrier']
        if c in ('f64', 'f64scalar', 'objfloat'):
            return {'v': [D.real('v%d' % i, -2**62, 2**62) for i in range(n)]}
        if c == 'u64':
            return {'v': [D.int('v%d' % i, 0, 2**64 - 1) for i in range(n)]}
        if c == 'i64':
            return {'v': [D.int('v%d' % i, -2**63, 2**63 - 1) for i in range(n)]}
        return {'v': [D.int('v%d' % i) for i in range(n)]}

    def run(self, cfg, P, inp):
        x = make_fxp(P, True, 8, 2)
        c = cfg['carrier']
        if c == 'pyint':
            val = inp['v'][0]
        elif c == 'f64scalar':
            val = P.np.array(inp['v'][0], dtype='float64') * 1       # numpy float64 scalar
        else:
            dt = {'f64': 'float64', 'i64': 'int64', 'u64': 'uint64', 'objint': object, 'objfloat': object}[c]
            val = P.arr(inp['v'], dtype=dt, shape=tuple(cfg['shape']))
        r = x._round(val, method=cfg['rule'])
        return {'r': r, 'same_object': r is val}

    def post(self, cfg, inp, obs):
        if obs['exc']:
            return {}
        out = {}
        rs = elems(obs['r'])
        isfloat = cfg['carrier'] in ('f64', 'f64scalar')
        out['count'] = len(rs) == len(inp['v'])
        for i, (v, r) in enumerate(zip(inp['v'], rs)):
            v, r = M(v), M(r)
            if isfloat:
                out['rounded[%d]' % i] = eq(r, ROUND(v, cfg['rule']))
            else:
                out['identity[%d]' % i] = eq(r, v)
        if not isfloat:
            out['unchanged_object'] = obs['same_object']
        return out

    def stubs(self, P):
        def _round(self, val, method='floor'):
            if isinstance(val, int) or P.np.issubdtype(P.np.array(val).dtype, P.np.integer) or P.np.issubdtype(P.np.array(val).dtype, P.np.object_):
                return val
            a = P.np.asarray(val)
            core_assert(method in ROUNDINGS, '_round.pre: method is one of the five rules')
            el = [as_float(unM(ROUND(M(e), method))) for e in elems(a)]
            r = P.arr(el, dtype='float64', shape=a.shape)
            return r
        return {(P.Fxp, '_round'): _round}


def core_assert(cond, label):
    """precondition of a stubbed callee: an obligation at the call site (attributed to the caller)"""
    from fxpv import core
    if core.CTX is not None:
        core.CTX.prove('call-pre:' + label, cond, kind='clause')
    else:
        assert cond, label


# ==========================================================================================================
@contract
class OverflowAction(Contract):
    """_overflow_action(new_val, lo, hi): result = OVF(new_val) elementwise under the configured mode;
    overflow' = overflow or ANY(new_val > hi); underflow' = underflow or ANY(new_val < lo); the
    callbacks on_status_overflow / on_status_underflow run once each, exactly for the conditions that
    occurred; nothing else of self changes."""
    name = 'objects:Fxp._overflow_action'
    layer = 2
    uses = ('utils:wrap', 'utils:clip')
    props = {'*': ['C01'], 'value': ['C01', 'C02', 'C03', 'C18'], 'flag_overflow': ['C04', 'C18'], 'flag_underflow': ['C04', 'C18'],
             'log': ['C04'], 'sticky': ['C04'], 'frame': ['C04', 'C20']}

    def configs(self, tier):
        fm = [(True, 1), (True, 2), (True, 8), (False, 1), (False, 8), (True, 52), (False, 52), (True, 31), (False, 32)]
        if tier == 'thorough':
            fm = [(s, n) for s in (True, False) for n in range(1, 53)]
        wide = [(True, 64), (False, 64), (True, 65), (False, 128), (True, 256)]
        for signed, n in fm:
            for mode in OVERFLOWS:
                for carrier in ('f64', 'i64'):
                    for shape in scalar_shapes(tier):
                        yield dict(signed=signed, n_word=n, mode=mode, carrier=carrier, shape=list(shape))
        for signed, n in wide:
            for mode in OVERFLOWS:
                for carrier in ('objint',) + (('objfloat',) if mode == 'saturate' else ()):
                    for shape in ((), (2,)):
                        yield dict(signed=signed, n_word=n, mode=mode, carrier=carrier, shape=list(shape))

    def inputs(self, cfg, D):
        n = nelem(cfg['shape'])
        c = cfg['carrier']
        if c == 'f64':
            v = [D.int('r%d' % i, -2**53, 2**53) for i in range(n)]     # integral doubles (output of _round)
        elif c == 'i64':
            v = [D.int('r%d' % i, -2**62, 2**62) for i in range(n)]
        elif c == 'objint':
            v = [D.int('r%d' % i) for i in range(n)]
            if n > 1:
                # documented out-of-domain region (DESIGN section 6): utils.int_array re-infers the dtype of
                # an object array; a mix of [2^63, 2^64) and negative values becomes float64 there.
                neg = Or(*[M(x) < 0 for x in v]); big = Or(*[And(M(x) >= 2**63, M(x) < 2**64) for x in v])
                D.assume(Not(And(neg, big)))
        else:
            v = [D.real('r%d' % i) for i in range(n)]
        return {'r': v, 'st': sym_status(D)}

    def run(self, cfg, P, inp):
        cb = RecCallback()
        x = make_fxp(P, cfg['signed'], cfg['n_word'], 0, cfg={'overflow': cfg['mode']}, status=inp['st'], callbacks=[cb])
        before = dict(x.__dict__)
        dt = {'f64': 'float64', 'i64': 'int64', 'objint': object, 'objfloat': object}[cfg['carrier']]
        vals = inp['r']
        new_val = P.arr(vals, dtype=dt, shape=tuple(cfg['shape']))
        lo, hi = range_of(cfg['signed'], cfg['n_word'])
        r = x._overflow_action(new_val, lo, hi)
        frame_ok = all(x.__dict__[k] is before[k] for k in before if k not in ('status',)) and set(x.__dict__) == set(before)
        return {'r': r, 'status': dict(x.status), 'log': list(cb.log), 'frame_ok': frame_ok}

    def post(self, cfg, inp, obs):
        if obs['exc']:
            return {}
        signed, n, mode = cfg['signed'], cfg['n_word'], cfg['mode']
        lo, hi = range_of(signed, n)
        out = {'frame': obs['frame_ok'], 'shape': list(shape_of(obs['r'])) == cfg['shape']}
        rs = [M(r) for r in inp['r']]
        for i, (r, o) in enumerate(zip(rs, elems(obs['r']))):
            if cfg['carrier'] == 'objfloat':
                # un-rounded floats are only ever saturated (|v| >= 2^64 path): clamp, value kept otherwise
                out['value[%d]' % i] = eq(M(o), ite(r > hi, hi, ite(r < lo, lo, r)))
            else:
                out['value[%d]' % i] = eq(M(o), OVF(r, signed, n, mode))
        any_hi = Or(*[r > hi for r in rs])
        any_lo = Or(*[r < lo for r in rs])
        st0, st1 = inp['st'], obs['status']
        out['flag_overflow'] = Iff(B(st1['overflow']), Or(B(st0['overflow']), any_hi))
        out['flag_underflow'] = Iff(B(st1['underflow']), Or(B(st0['underflow']), any_lo))
        out['flag_others'] = And(Iff(B(st1['inaccuracy']), B(st0['inaccuracy'])), st1['extended_prec'] == (n >= 64),
                                 set(st1) == {'overflow', 'underflow', 'inaccuracy', 'extended_prec'})
        log = obs['log']
        # the log is concrete per path; it must be [overflow?][underflow?] exactly for what occurred
        out['log'] = And(Iff('overflow' in log, any_hi), Iff('underflow' in log, any_lo),
                         log == [k for k in ('overflow', 'underflow') if k in log])
        return out

    def stubs(self, P):
        def _overflow_action(self, new_val, val_min, val_max):
            lo, hi = range_of(self.signed, self.n_word)
            core_assert(val_min == lo and val_max == hi, '_overflow_action.pre: bounds are the format range')
            core_assert(self.config.overflow in OVERFLOWS, '_overflow_action.pre: valid overflow mode')
            a = P.np.asarray(new_val)
            rs = [M(int_value(e)) for e in elems(a)]
            any_hi = unM(Or(*[r > hi for r in rs])); any_lo = unM(Or(*[r < lo for r in rs]))
            # flags and callbacks (exactly as the contract's ensures; forks on what occurred)
            if any_hi:
                self.status['overflow'] = True
                self._run_callbacks('on_status_overflow')
            if any_lo:
                self.status['underflow'] = True
                self._run_callbacks('on_status_underflow')
            mode = self.config.overflow
            if a.dtype == object and mode == 'saturate':
                el = [unM(ite(r > hi, hi, ite(r < lo, lo, r))) for r in rs]
                return P.arr(el, dtype=object, shape=a.shape)
            el = [unM(OVF(r, self.signed, self.n_word, mode)) for r in rs]
            if self.n_word >= 64:
                return P.arr(el, dtype=object, shape=a.shape)
            if a.dtype.kind == 'f':
                return P.arr([as_float(e) for e in el], dtype='float64', shape=a.shape)
            return P.arr(el, dtype='int64', shape=a.shape)
        return {(P.Fxp, '_overflow_action'): _overflow_action}
