"""fxpv.validate -- differential unit validation of the assumed NumPy contracts (fxpv.arr / fxpv.npc).

Every entry point is evaluated on concrete boundary / seeded-random data twice: through the proxies, with the
data wrapped as *constant symbolic terms* (so the symbolic code paths run, not the concrete forwarding), and
through the installed NumPy.  Any disagreement is a fault of the checker (reported as CHECKER-ERROR by
./check), never a verdict about the repository.
"""
import random
import warnings
from fractions import Fraction

import numpy as np
import z3

from . import core, arr as A, npc
from .core import SNum, SBool, Undecided

INT_DTS = ['int8', 'int16', 'int32', 'int64', 'uint8', 'uint16', 'uint32', 'uint64']


def _sym(v):
    """constant wrapped as a symbolic term"""
    if isinstance(v, (bool, np.bool_)):
        return bool(v)
    if isinstance(v, (int, np.integer)):
        return SNum(z3.IntVal(int(v)))
    if isinstance(v, (float, np.floating)):
        fr = Fraction(float(v))
        g = fr.denominator.bit_length() - 1
        return SNum.float_of_intterm(z3.IntVal(fr.numerator), g)
    return v


def _sarr(a):
    if isinstance(a, np.generic):
        return A.SGen([_sym(a.item())], np.zeros((), dtype=int), a.dtype)
    a = np.asarray(a)
    if a.dtype.kind == 'O':
        return A.new_like(a.shape, [_sym(v) for v in a.ravel()], A.OBJ)
    return A.new_like(a.shape, [_sym(v) for v in a.ravel().tolist()], a.dtype)


def _conc(x):
    """proxy result -> comparable python structure"""
    def one(e):
        if isinstance(e, SNum):
            t = z3.simplify(e.t)
            v = core.zval(t)
            return Fraction(v)
        if isinstance(e, SBool):
            t = z3.simplify(e.t)
            return bool(core.zval(t))
        if isinstance(e, (bool, np.bool_)):
            return bool(e)
        if isinstance(e, (int, float, np.integer, np.floating)):
            return Fraction(e) if not (isinstance(e, float) and (e != e or e in (float('inf'), float('-inf')))) else e
        return e
    if isinstance(x, A.SBase):
        return ('arr' if not x.is_scalar else 'scalar', x.dtype.name if x.dtype.kind != 'O' else 'object', tuple(x.shape), [one(e) for e in x.elems])
    return ('py', type(x).__name__ if not isinstance(x, (SNum, SBool)) else ('int' if isinstance(x, SNum) and x.isint else 'float' if isinstance(x, SNum) else 'bool'), (), [one(x)])


def _real(x):
    def one(e):
        if isinstance(e, (bool, np.bool_)):
            return bool(e)
        if isinstance(e, (float, np.floating)) and (e != e or e in (float('inf'), float('-inf'))):
            return float(e)
        return Fraction(e) if isinstance(e, (int, float, np.integer, np.floating)) else e
    if isinstance(x, np.ndarray):
        return ('arr', x.dtype.name if x.dtype.kind != 'O' else 'object', tuple(x.shape), [one(e) for e in (x.ravel() if x.dtype.kind == 'O' else x.ravel().tolist())])
    if isinstance(x, np.generic):
        return ('scalar', x.dtype.name, (), [one(x.item())])
    return ('py', type(x).__name__, (), [one(x)])


def _vals(rng, dt, n):
    dt = np.dtype(dt)
    if dt.kind in 'iu':
        info = np.iinfo(dt)
        pool = [int(info.min), int(info.max), 0, 1, int(info.max) // 2, int(info.min) // 2 if info.min else 3, 5, 7]
        if dt.kind == 'i':
            pool += [-1, -2]
        return np.array([rng.choice(pool) if rng.random() < 0.6 else rng.randint(int(info.min), int(info.max)) for _ in range(n)], dtype=dt)
    if dt.kind == 'f':
        pool = [0.0, 1.0, -1.0, 0.5, -2.5, 3.75, 127.0, -128.0, 1024.125, 2.0 ** 40, -(2.0 ** 30) - 0.5]
        return np.array([rng.choice(pool) if rng.random() < 0.7 else rng.randint(-2 ** 20, 2 ** 20) / 8.0 for _ in range(n)], dtype=dt)
    if dt.kind == 'b':
        return np.array([rng.random() < 0.5 for _ in range(n)])
    raise ValueError(dt)


def run(seed=0, rounds=300):
    """-> (number of comparisons, list of disagreements)"""
    rng = random.Random(seed)
    core_ctx_saved = core.CTX
    core.CTX = core.Ctx()
    bad = []
    n = 0
    skipped = {}

    def compare(label, fsym, freal):
        nonlocal n
        n += 1
        rs = rr = None
        es = er = None
        with warnings.catch_warnings():
            warnings.simplefilter('ignore')
            try:
                rr = _real(freal())
            except Exception as e:
                er = type(e).__name__
        try:
            rs = _conc(fsym())
        except Undecided:
            skipped[label.split()[0]] = skipped.get(label.split()[0], 0) + 1
            return          # fail-closed: not modelled is not a disagreement
        except core.CheckerError as e:
            if 'cannot concretise' in str(e):
                skipped['approx'] = skipped.get('approx', 0) + 1
                return      # result over-approximated by an unconstrained rounding term: sound, nothing to compare
            es = 'CheckerError: ' + str(e)[:120]
        except Exception as e:
            es = type(e).__name__ + (': ' + str(e)[:120] if isinstance(e, core.CheckerError) else '')
        if es is not None or er is not None:
            if es != er and not (er in ('OverflowError', 'TypeError') and es in ('OverflowError', 'TypeError')):
                bad.append((label, 'exception sym=%s real=%s' % (es, er)))
            return
        if rs != rr:
            if len(bad) < 25:
                bad.append((label, 'sym=%r real=%r' % (rs, rr)))

    binops = [('add', lambda a, b: a + b), ('subtract', lambda a, b: a - b), ('multiply', lambda a, b: a * b),
              ('less', lambda a, b: a < b), ('greater_equal', lambda a, b: a >= b), ('equal', lambda a, b: a == b)]
    try:
        for _ in range(rounds):
            # ---- array (op) array with promotion -------------------------------------------------------
            d1 = rng.choice(INT_DTS + ['float64', 'int64', 'uint64', 'int64'])
            d2 = rng.choice(INT_DTS + ['float64', 'int64', 'uint64'])
            shape = rng.choice([(), (2,), (3,), (2, 2)])
            k = int(np.prod(shape)) if shape else 1
            a = _vals(rng, d1, k).reshape(shape); b = _vals(rng, d2, k).reshape(shape)
            name, f = rng.choice(binops)
            if name in ('add', 'subtract', 'multiply') and ('float64' in (d1, d2) or np.result_type(a.dtype, b.dtype).kind == 'f'):
                # float arithmetic is exact only under side conditions: keep small dyadic values
                a = (a.astype('int64') % 1000).astype(a.dtype) if a.dtype.kind in 'iu' else a
                b = (b.astype('int64') % 1000).astype(b.dtype) if b.dtype.kind in 'iu' else b
                a = np.clip(a, -4096, 4096) if a.dtype.kind == 'f' else a
                b = np.clip(b, -4096, 4096) if b.dtype.kind == 'f' else b
            compare('%s %s %s %s' % (name, d1, d2, shape), lambda: f(_sarr(a), _sarr(b)), lambda: f(a, b))
            # ---- array (op) python scalar (NEP 50 weak scalars) -----------------------------------------
            s = rng.choice([0, 1, -1, 3, 255, 256, -129, 2 ** 31, 2 ** 63 - 1, 2 ** 63, -2 ** 63, 2 ** 64, 0.5, -2.0, 16.0])
            if name in ('add', 'subtract', 'multiply') and (isinstance(s, float) or a.dtype.kind == 'f'):
                a2 = np.clip(a, -4096, 4096) if a.dtype.kind == 'f' else (a.astype('int64') % 1000).astype(a.dtype)
            else:
                a2 = a
            compare('%s %s scalar %r' % (name, d1, s), lambda: f(_sarr(a2), _sym(s) if rng.random() < 0.5 else s), lambda: f(a2, s))
            # ---- integer-only operators -------------------------------------------------------------------
            if a.dtype.kind in 'iu':
                m = rng.choice([1, 3, 255, 2 ** 31 - 1, 2 ** 32, 7, 1 << 8])
                sh = rng.choice([0, 1, 3, 7])
                for lab, g in (('and', lambda x: x & (m - 1 if m & (m - 1) == 0 else 255)), ('floordiv', lambda x: x // max(m, 1)), ('mod', lambda x: x % max(m, 1)),
                               ('rshift', lambda x: x >> sh), ('lshift', lambda x: x << sh), ('neg', lambda x: -x), ('abs', lambda x: abs(x)),
                               ('truediv_pow2', lambda x: x / 8), ('floordiv_float', lambda x: x // 0.25)):
                    if lab in ('truediv_pow2', 'floordiv_float'):
                        aa = (a.astype('int64') % 100000).astype(a.dtype)
                    else:
                        aa = a
                    compare('%s %s' % (lab, d1), lambda: g(_sarr(aa)), lambda: g(aa))
            # ---- memory layout: results of column-major (Fortran-ordered / transposed) operands keep that layout (order='K') ----
            sh2 = rng.choice([(2, 2), (2, 3), (3, 2)])
            k2 = sh2[0] * sh2[1]
            a3 = (_vals(rng, 'int64', k2) % 1000).reshape(sh2); b3 = (_vals(rng, 'int64', k2) % 1000).reshape(sh2)
            fa, fb = np.asfortranarray(a3), np.asfortranarray(b3)
            for lab, g in (('K add', lambda x, y: (x + y).ravel(order='K')), ('K mul scalar', lambda x, y: (x * 3).ravel(order='K')),
                           ('K astype', lambda x, y: x.astype('float64').ravel(order='K')), ('K neg', lambda x, y: (-x).flatten('K')),
                           ('K floordiv', lambda x, y: (x // 4).flatten('K')), ('K cmp', lambda x, y: (x > y).ravel(order='K')),
                           ('K transposed', lambda x, y: (x.T * 2).ravel(order='K')), ('C ravel', lambda x, y: (x + y).ravel())):
                compare('layout %s %s' % (lab, sh2), lambda: g(A._to_forder(_sarr(a3)), A._to_forder(_sarr(b3))), lambda: g(fa, fb))
            compare('layout K mixed %s' % (sh2,), lambda: (A._to_forder(_sarr(a3)) + _sarr(b3)).ravel(order='K'), lambda: (fa + b3).ravel(order='K'))
            # ---- casts --------------------------------------------------------------------------------------
            dst = rng.choice(INT_DTS + ['float64', 'object', 'bool'])
            src = a
            if a.dtype.kind == 'f' and np.dtype(dst).kind in 'iu':
                src = np.clip(np.trunc(a), 0, 100)       # float->int casts out of range are undefined behaviour
            compare('astype %s->%s' % (src.dtype, dst), lambda: _sarr(src).astype(dst), lambda: src.astype(dst))
            # ---- reductions / selection ----------------------------------------------------------------------
            if k > 0 and a.dtype.kind in 'iuf':
                small = (a.astype('int64') % 50).astype(a.dtype) if a.dtype.kind in 'iu' else np.clip(a, -64, 64)
                compare('max %s' % d1, lambda: npc.max.impl(_sarr(small)), lambda: np.max(small))
                compare('min %s' % d1, lambda: npc.min.impl(_sarr(small)), lambda: np.min(small))
                compare('sum %s' % d1, lambda: npc.sum.impl(_sarr(small)), lambda: np.sum(small))
                compare('any %s' % d1, lambda: npc.any.impl(_sarr(small) > 3), lambda: bool(np.any(small > 3)))
                if small.ndim >= 1:
                    compare('sort %s' % d1, lambda: npc.sort.impl(_sarr(small)), lambda: np.sort(small))
                    compare('cumsum %s' % d1, lambda: npc.cumsum.impl(_sarr(small)), lambda: np.cumsum(small))
                compare('where %s' % d1, lambda: npc.where.impl(_sarr(small) > 2, _sarr(small), 0), lambda: np.where(small > 2, small, 0))
                compare('clip %s' % d1, lambda: npc.clip.impl(_sarr(small), 1, 7), lambda: np.clip(small, 1, 7))
            # ---- object arrays of python ints (wide formats) ------------------------------------------------------
            oa = np.array([rng.choice([0, 1, -1, 2 ** 70, -2 ** 70 - 3, 2 ** 63, 12345, -7]) for _ in range(max(k, 1))], dtype=object).reshape(shape if shape else (1,))
            ob = np.array([rng.choice([1, 3, -5, 2 ** 65 + 1, 2 ** 20]) for _ in range(max(k, 1))], dtype=object).reshape(shape if shape else (1,))
            for lab, g in (('oadd', lambda x, y: x + y), ('osub', lambda x, y: x - y), ('omul', lambda x, y: x * y), ('ofloordiv', lambda x, y: x // y),
                           ('omod', lambda x, y: x % y), ('olt', lambda x, y: x < y), ('oand', lambda x, y: x & (2 ** 66 - 1)), ('oshift', lambda x, y: (x << 3) >> 2),
                           ('oscalar', lambda x, y: x * 4 + 1), ('oneg', lambda x, y: -x)):
                compare('object %s' % lab, lambda: g(_sarr(oa), _sarr(ob)), lambda: g(oa, ob))
            compare('object max', lambda: npc.max.impl(_sarr(oa)), lambda: np.max(oa))
            compare('object sum', lambda: npc.sum.impl(_sarr(oa)), lambda: np.sum(oa))
            compare('object where', lambda: npc.where.impl(_sarr(oa) > 5, _sarr(oa), 5), lambda: np.where(oa > 5, oa, 5))
            compare('object clip', lambda: npc.clip.impl(_sarr(oa), -2 ** 64, 2 ** 64 - 1), lambda: np.clip(oa, -2 ** 64, 2 ** 64 - 1))
            # ---- 2-d helpers ---------------------------------------------------------------------------------------
            m2 = _vals(rng, rng.choice(['int64', 'int32', 'float64']), 6).reshape(2, 3)
            m2 = (m2.astype('int64') % 20).astype(m2.dtype) if m2.dtype.kind in 'iu' else np.clip(m2, -16, 16)
            compare('transpose', lambda: npc.transpose.impl(_sarr(m2)), lambda: np.transpose(m2))
            compare('trace', lambda: npc.trace.impl(_sarr(m2), offset=rng.choice([0])), lambda: np.trace(m2))
            compare('diagonal', lambda: npc.diagonal.impl(_sarr(m2), offset=1), lambda: np.diagonal(m2, offset=1))
            compare('sum axis0', lambda: npc.sum.impl(_sarr(m2), axis=0), lambda: np.sum(m2, axis=0))
            compare('max axis1', lambda: npc.max.impl(_sarr(m2), axis=1), lambda: np.max(m2, axis=1))
            compare('prod', lambda: npc.prod.impl(_sarr(m2)), lambda: np.prod(m2))
            compare('cumprod', lambda: npc.cumprod.impl(_sarr(m2), axis=1), lambda: np.cumprod(m2, axis=1))
            compare('dot', lambda: npc.dot.impl(_sarr(m2), _sarr(m2.T)), lambda: np.dot(m2, m2.T))
            compare('reshape', lambda: npc.reshape.impl(_sarr(m2), (3, 2)), lambda: np.reshape(m2, (3, 2)))
            compare('getitem', lambda: _sarr(m2)[1, ::2], lambda: m2[1, ::2])
            compare('all', lambda: npc.all.impl(_sarr(m2) >= 0), lambda: bool(np.all(m2 >= 0)))
            # ---- rounding family --------------------------------------------------------------------------------
            fl = np.array([rng.choice([0.5, 1.5, 2.5, -0.5, -1.5, 2.25, -2.75, 3.0, 1e6 + 0.5, -7.5]) for _ in range(max(k, 1))]).reshape(shape)
            for fn in ('floor', 'ceil', 'trunc', 'fix', 'around', 'rint'):
                compare('np.%s' % fn, lambda: getattr(npc, fn).impl(_sarr(fl)), lambda: getattr(np, fn)(fl))
            # ---- np.array dtype inference from python lists ----------------------------------------------------
            lst = [rng.choice([0, 1, -1, 2 ** 62, 2 ** 63 - 1, 2 ** 63, 2 ** 64 - 1, 2 ** 64, -2 ** 63, -2 ** 63 - 1, 0.5, 2.0]) for _ in range(rng.choice([1, 2, 3]))]
            def sym_arr():
                return A.array([_sym(v) for v in lst])
            def chk_infer():
                r = np.array(lst)
                return r
            if all(isinstance(v, int) for v in lst) or all(abs(v) < 2 ** 53 for v in lst):
                compare('np.array(%r)' % (lst,), sym_arr, chk_infer)
    finally:
        core.CTX = core_ctx_saved
    run.skipped = skipped
    return n, bad


if __name__ == '__main__':
    import sys
    n, bad = run(int(sys.argv[1]) if len(sys.argv) > 1 else 0, int(sys.argv[2]) if len(sys.argv) > 2 else 300)
    print('%d comparisons, %d disagreements; not compared (fail-closed / over-approximated): %r' % (n, len(bad), run.skipped))
    for b in bad[:25]:
        print(' ', b[0], '::', b[1][:300])
