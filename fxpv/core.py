"""fxpv.core -- path context, explorer, symbolic scalars (SBool, SNum) and math terms (MTerm).

CPython executes the real function bodies; only data is symbolic.  Everything here is
fail-closed: an operation the proxies do not model raises Undecided (a BaseException, so
library code cannot swallow it).
"""
import os
import time
from fractions import Fraction
import z3

# ----------------------------------------------------------------------------------------
# control exceptions
# ----------------------------------------------------------------------------------------
class Undecided(BaseException):
    """The engine cannot model this operation faithfully -> the obligation is undecided."""

class UnwindingFailed(Undecided):
    pass

class PathInfeasible(BaseException):
    pass

class CheckerError(Exception):
    pass

CTX = None          # the current path context; always access as core.CTX

DBL_MAX = Fraction(int((2**53 - 1) * 2**971))
TWO53 = 2**53
TIMEOUT_MS = int(os.environ.get('FXPV_TIMEOUT_MS', '10000'))


def _is_true(t):
    return z3.is_true(t)

def _is_false(t):
    return z3.is_false(t)


class Ctx:
    """One execution path.  prefix = list of booleans (decisions already fixed)."""
    def __init__(self, prefix=(), timeout_ms=None):
        self.prefix = list(prefix)
        self.trace = []            # [(decision, alt_pending)]
        self.ndec = 0
        self.solver = z3.Solver()
        self.solver.set('timeout', timeout_ms or TIMEOUT_MS)
        self.inputs = {}           # name -> (sort, z3 const)
        self.counter = 0
        self.floor_memo = {}
        self.mod_memo = {}
        self.uf = {}
        self.oblig = []            # dicts
        self.spec_depth = 0        # >0 while evaluating spec text (no forks allowed)
        self.pc_n = 0
        self.solver_s = 0.0
        self.nchecks = 0
        self.sticky = None         # first control exception seen (bare except protection)
        self.loop_ticks = {}
        self.log = []              # ghost callback log etc.
        self.notes = []
        self.assumed_used = set()  # names of npc/pyc contracts reached
        self.funcs_entered = set() # T7: real functions of /repo executed on this path
        self.stub_calls = []
        self.approx_used = False
        self.width_hint = {}
        self.fp_exact_proved = 0
        self.fp_approx = 0
        self.bits_memo = {}

    # -- fresh symbols ------------------------------------------------------------------
    def fresh(self, base, sort='int'):
        self.counter += 1
        name = '%s!%d' % (base, self.counter)
        return z3.Int(name) if sort == 'int' else (z3.Real(name) if sort == 'real' else z3.Bool(name))

    def input_int(self, name):
        c = z3.Int(name)
        self.inputs[name] = ('int', c)
        return c

    def input_real(self, name):
        c = z3.Real(name)
        self.inputs[name] = ('real', c)
        return c

    def input_bool(self, name):
        c = z3.Bool(name)
        self.inputs[name] = ('bool', c)
        return c

    # -- solver ------------------------------------------------------------------------
    def add(self, *cs):
        for c in cs:
            self.solver.add(c)
            self.pc_n += 1

    def _check(self, *extra):
        t0 = time.time()
        self.solver.push()
        try:
            for e in extra:
                self.solver.add(e)
            r = self.solver.check()
            m = self.solver.model() if r == z3.sat else None
        finally:
            self.solver.pop()
        self.solver_s += time.time() - t0
        self.nchecks += 1
        return r, m

    def feasible(self, c):
        r, _ = self._check(c)
        return r != z3.unsat        # unknown counts as feasible

    def valid(self, c):
        """True iff PC => c is proved."""
        r, _ = self._check(z3.Not(c))
        return r == z3.unsat

    def decide(self, c):
        """Fork on boolean term c.  Returns the Python bool for this path."""
        if self.spec_depth:
            raise CheckerError('spec text branched on a symbolic condition: %s' % c)
        c = z3.simplify(c)
        if _is_true(c):
            return True
        if _is_false(c):
            return False
        i = self.ndec
        self.ndec += 1
        if i < len(self.prefix):
            d, alt = self.prefix[i]
            self.trace.append((d, alt))      # a still-unexplored alternative of an earlier fork stays pending
        else:
            t = self.feasible(c)
            if not t:
                d = False
                self.trace.append((False, False))
            else:
                f = self.feasible(z3.Not(c))
                d = True
                self.trace.append((True, bool(f)))
        self.add(c if d else z3.Not(c))
        return d

    def assume(self, c):
        c = as_z3bool(c)
        self.add(c)

    # -- obligations -------------------------------------------------------------------
    def prove(self, label, cond, kind='clause'):
        """Record the obligation PC => cond.  Returns True when discharged."""
        t0 = time.time()
        rec = {'label': label, 'kind': kind}
        if isinstance(cond, (bool,)) or cond is None:
            ok = bool(cond)
            rec.update(result='discharged' if ok else 'failed', backend='eval', model=None, time=0.0)
            if not ok:
                # concrete falsity on a feasible path: any model of PC is a witness
                r, m = self._check()
                if r == z3.unknown and cvc5_check(self.solver, z3.BoolVal(True)) == 'unsat':
                    r = z3.unsat
                if r == z3.unsat:
                    rec.update(result='discharged', backend='infeasible-path')
                elif r == z3.unknown:
                    rec.update(result='undecided')
                rec['model'] = self.model_inputs(m) if m is not None else None
                rec['solver'] = 'clause evaluated to False on this path; path condition is %s' % r
            self.oblig.append(rec)
            return ok
        c = as_z3bool(cond)
        c = z3.simplify(c)
        if _is_true(c):
            rec.update(result='discharged', backend='simplify', model=None, time=time.time() - t0)
            self.oblig.append(rec)
            return True
        r, m = self._check(z3.Not(c))
        backend = 'z3'
        if r == z3.unknown:
            r2 = cvc5_check(self.solver, z3.Not(c))
            if r2 is not None:
                backend = 'cvc5'
                r = z3.unsat if r2 == 'unsat' else z3.unknown
                # cvc5 'sat' is left as unknown here: models are taken from z3 only
        if r == z3.unsat:
            rec.update(result='discharged', backend=backend, model=None)
        elif r == z3.sat:
            rec.update(result='failed', backend=backend, model=self.model_inputs(m),
                       solver='sat: negation of clause is satisfiable under the path condition')
            rec['_neg'] = z3.Not(c)
        else:
            rec.update(result='undecided', backend=backend, model=None,
                       solver='unknown: %s' % self.solver.reason_unknown())
        rec['time'] = time.time() - t0
        self.oblig.append(rec)
        return rec['result'] == 'discharged'

    def prove_all(self, clauses, kind='clause'):
        """Discharge a dict of clauses: one batched query for the conjunction first; only when that is
        not valid are the clauses tried one by one (to name the failing obligation)."""
        t0 = time.time()
        pend = []
        for label, cond in clauses.items():
            if isinstance(cond, bool) or cond is None:
                self.prove(label, cond, kind)
                continue
            c = z3.simplify(as_z3bool(cond))
            if _is_true(c):
                self.oblig.append({'label': label, 'kind': kind, 'result': 'discharged', 'backend': 'simplify', 'model': None, 'time': 0.0})
            else:
                pend.append((label, c))
        if not pend:
            return
        if len(pend) > 1:
            r, _ = self._check(z3.Not(z3.And(*[c for _, c in pend])))
            if r == z3.unsat:
                dt = (time.time() - t0) / len(pend)
                for label, c in pend:
                    self.oblig.append({'label': label, 'kind': kind, 'result': 'discharged', 'backend': 'z3-batch', 'model': None, 'time': dt})
                return
        for label, c in pend:
            self.prove(label, MBool(c), kind)

    def model_inputs(self, m):
        out = {}
        if m is None:
            return out
        for name, (sort, c) in self.inputs.items():
            v = m.eval(c, model_completion=True)
            out[name] = zval(v)
        return out

    def any_model(self, extra=()):
        r, m = self._check(*extra)
        if r == z3.sat:
            return m
        return None

    # -- arithmetic helpers with hash-consed witnesses -----------------------------------
    def floor(self, r):
        """Int term k with k <= r < k+1 (r a Real term)."""
        r = z3.simplify(r)
        if z3.is_int(r):
            return r
        if z3.is_rational_value(r):
            fr = Fraction(r.numerator_as_long(), r.denominator_as_long())
            return z3.IntVal(fr.numerator // fr.denominator)
        iv = int_view(r)
        if iv is not None:
            return z3.simplify(iv)
        # dyadic-rational combination of integer terms: floor(n / L) in pure integer arithmetic
        dens = []
        _coef_dens(r, dens)
        L = 1
        for x in dens:
            if x != 1:
                from math import gcd
                L = L * x // gcd(L, x)
        if 1 < L <= (1 << 400):
            iv = int_view(z3.simplify(r * z3.RealVal(L)))
            if iv is not None:
                return self.div(z3.simplify(iv), L)
        key = r.get_id()
        hit = self.floor_memo.get(key)
        if hit is not None:
            return hit[0]
        k = self.fresh('fl', 'int')
        self.solver.add(z3.ToReal(k) <= r, r < z3.ToReal(k) + 1)
        self.floor_memo[key] = (k, r)
        return k

    def mod(self, a, m):
        """a mod m for an Int term a and a concrete positive int m; hash-consed witnesses."""
        assert isinstance(m, int) and m > 0
        a = z3.simplify(a)
        if z3.is_int_value(a):
            return z3.IntVal(a.as_long() % m)
        key = (a.get_id(), m)
        hit = self.mod_memo.get(key)
        if hit is not None:
            return hit[0]
        q = self.fresh('mq', 'int')
        r = self.fresh('mr', 'int')
        self.solver.add(a == q * m + r, r >= 0, r < m)
        self.mod_memo[key] = (r, q, a)
        if m & (m - 1) == 0:
            self.width_hint[r.get_id()] = (m.bit_length() - 1, r)
        return r

    def div(self, a, m):
        """floor(a / m) for concrete positive m."""
        assert isinstance(m, int) and m > 0
        a = z3.simplify(a)
        if z3.is_int_value(a):
            return z3.IntVal(a.as_long() // m)
        self.mod(a, m)
        return self.mod_memo[(a.get_id(), m)][1]

    def bits(self, t, n):
        """witness bits b_0..b_{n-1} of an Int term known to lie in [0, 2^n) (bit-blasting for small n)"""
        key = (t.get_id(), n)
        hit = self.bits_memo.get(key)
        if hit is not None:
            return hit[0]
        bs = [self.fresh('bit', 'int') for _ in range(n)]
        for b in bs:
            self.solver.add(b >= 0, b <= 1)
        self.solver.add(t == z3.Sum([bs[i] * (1 << i) for i in range(n)]) if n else t == 0)
        self.bits_memo[key] = (bs, t)
        return bs

    def ufunc(self, name, *sorts):
        f = self.uf.get(name)
        if f is None:
            ss = [z3.IntSort() if s == 'int' else z3.RealSort() for s in sorts]
            f = z3.Function(name, *ss)
            self.uf[name] = f
        return f

    def tick(self, loop_id, bound):
        n = self.loop_ticks.get(loop_id, 0) + 1
        self.loop_ticks[loop_id] = n
        if n > bound:
            raise UnwindingFailed('loop %s exceeded unwinding bound %d' % (loop_id, bound))


_CVC5 = None

def cvc5_check(solver, extra):
    """Hand z3's unknown to cvc5 (SMT-LIB2 text).  Returns 'unsat' / 'sat' / None."""
    import shutil, subprocess, tempfile, os
    global _CVC5
    if _CVC5 is None:
        _CVC5 = shutil.which('cvc5') or ''
    if not _CVC5:
        return None
    s2 = z3.Solver()
    s2.add(solver.assertions())
    s2.add(extra)
    txt = '(set-logic ALL)\n' + s2.to_smt2()
    fd, path = tempfile.mkstemp(suffix='.smt2')
    try:
        with os.fdopen(fd, 'w') as f:
            f.write(txt)
        p = subprocess.run([_CVC5, '--tlimit=20000', path], capture_output=True, text=True, timeout=40)
        out = p.stdout.strip().splitlines()
        if out and out[0] in ('unsat', 'sat'):
            return out[0]
    except Exception:
        return None
    finally:
        try:
            os.unlink(path)
        except OSError:
            pass
    return None


def zval(v):
    """z3 value -> Python int / Fraction / bool."""
    if z3.is_int_value(v):
        return v.as_long()
    if z3.is_rational_value(v):
        fr = Fraction(v.numerator_as_long(), v.denominator_as_long())
        return fr
    if z3.is_true(v):
        return True
    if z3.is_false(v):
        return False
    if z3.is_algebraic_value(v):
        a = v.approx(20)
        return Fraction(a.numerator_as_long(), a.denominator_as_long())
    raise CheckerError('cannot concretise %r' % (v,))


# ----------------------------------------------------------------------------------------
# keeping integer problems integer (z3 is weak on mixed Int/Real with huge bounds)
# ----------------------------------------------------------------------------------------
_IV_MEMO = {}

def int_view(t):
    """An Int-sorted term equal to the Real term t when t is syntactically integer-valued; else None."""
    if z3.is_int(t):
        return t
    key = t.get_id()
    hit = _IV_MEMO.get(key, 0)
    if hit != 0:
        return hit[1]
    r = _int_view(t)
    if len(_IV_MEMO) > 200000:
        _IV_MEMO.clear()
    _IV_MEMO[key] = (t, r)      # keep t alive so ids are not reused
    return r

def _int_view(t):
    if z3.is_rational_value(t):
        if t.denominator_as_long() == 1:
            return z3.IntVal(t.numerator_as_long())
        return None
    if not z3.is_app(t):
        return None
    k = t.decl().kind()
    if k == z3.Z3_OP_TO_REAL:
        return t.arg(0)
    if k in (z3.Z3_OP_ADD, z3.Z3_OP_MUL, z3.Z3_OP_SUB, z3.Z3_OP_UMINUS):
        parts = [int_view(a) for a in t.children()]
        if any(p is None for p in parts):
            return None
        if k == z3.Z3_OP_ADD:
            r = parts[0]
            for p in parts[1:]: r = r + p
            return r
        if k == z3.Z3_OP_MUL:
            r = parts[0]
            for p in parts[1:]: r = r * p
            return r
        if k == z3.Z3_OP_SUB:
            r = parts[0]
            for p in parts[1:]: r = r - p
            return r
        return -parts[0]
    if k == z3.Z3_OP_ITE:
        a, b = int_view(t.arg(1)), int_view(t.arg(2))
        if a is None or b is None:
            return None
        return z3.If(t.arg(0), a, b)
    return None


def _coef_dens(t, out, depth=0):
    """collect denominators of rational coefficients of a simplified linear-ish real term"""
    if z3.is_rational_value(t):
        out.append(t.denominator_as_long())
        return
    if not z3.is_app(t) or depth > 6:
        return
    k = t.decl().kind()
    if k in (z3.Z3_OP_ADD, z3.Z3_OP_SUB, z3.Z3_OP_UMINUS):
        for a in t.children():
            _coef_dens(a, out, depth + 1)
    elif k == z3.Z3_OP_MUL:
        for a in t.children():
            if z3.is_rational_value(a):
                out.append(a.denominator_as_long())
    elif k == z3.Z3_OP_ITE:
        _coef_dens(t.arg(1), out, depth + 1)
        _coef_dens(t.arg(2), out, depth + 1)


def cmp_terms(a, b, op):
    """op(a, b) for two arithmetic terms, moved to pure integer arithmetic when both sides are
    (dyadic-)integer valued."""
    if z3.is_int(a) and z3.is_int(b):
        return op(a, b)
    ra = z3.ToReal(a) if z3.is_int(a) else a
    rb = z3.ToReal(b) if z3.is_int(b) else b
    d = z3.simplify(ra - rb)
    dens = []
    _coef_dens(d, dens)
    L = 1
    for x in dens:
        if x != 1:
            from math import gcd
            L = L * x // gcd(L, x)
    if L != 1:
        if L > (1 << 400):
            return op(ra, rb)
        d = z3.simplify(d * z3.RealVal(L))
    iv = int_view(d)
    if iv is not None:
        return op(z3.simplify(iv), z3.IntVal(0))
    return op(ra, rb)


# ----------------------------------------------------------------------------------------
# term helpers
# ----------------------------------------------------------------------------------------
def is_sym(x):
    return isinstance(x, (SNum, SBool))

def zint(x):
    """Int-sorted z3 term of a concrete int / bool / Int-sorted SNum."""
    if isinstance(x, SNum):
        if not x.isint:
            raise CheckerError('zint of a float')
        return x.t
    if isinstance(x, SBool):
        return z3.If(x.t, z3.IntVal(1), z3.IntVal(0))
    if isinstance(x, bool):
        return z3.IntVal(int(x))
    if isinstance(x, int):
        return z3.IntVal(x)
    raise CheckerError('zint(%r)' % (type(x),))

def zreal(x):
    if isinstance(x, SNum):
        return x.t if not z3.is_int(x.t) else z3.ToReal(x.t)
    if isinstance(x, SBool):
        return z3.If(x.t, z3.RealVal(1), z3.RealVal(0))
    if isinstance(x, bool):
        return z3.RealVal(int(x))
    if isinstance(x, int):
        return z3.RealVal(x)
    if isinstance(x, float):
        if x != x or x in (float('inf'), float('-inf')):
            raise Undecided('non-finite float constant in symbolic arithmetic')
        fr = Fraction(x)
        return z3.RealVal(str(fr.numerator) + '/' + str(fr.denominator))
    if isinstance(x, Fraction):
        return z3.RealVal(str(x.numerator) + '/' + str(x.denominator))
    if isinstance(x, MTerm):
        return x.t if not z3.is_int(x.t) else z3.ToReal(x.t)
    raise CheckerError('zreal(%r)' % (type(x),))

def zterm(x):
    """z3 arithmetic term preserving int-ness."""
    if isinstance(x, (SNum, MTerm)):
        return x.t
    if isinstance(x, SBool):
        return zint(x)
    if isinstance(x, (bool, int)):
        return z3.IntVal(int(x))
    return zreal(x)

def as_z3bool(c):
    if isinstance(c, (SBool, MBool)):
        return c.t
    if isinstance(c, bool):
        return z3.BoolVal(c)
    if z3.is_bool(c):
        return c
    try:
        import numpy as _np
        if isinstance(c, _np.bool_):
            return z3.BoolVal(bool(c))
    except Exception:
        pass
    raise CheckerError('not a boolean: %r' % (c,))

def pow2(k):
    """2**k as exact Fraction/int for concrete int k."""
    return (1 << k) if k >= 0 else Fraction(1, 1 << (-k))

def log2_exact(x):
    """k if x == 2**k (x concrete int/float/Fraction > 0) else None."""
    try:
        fr = Fraction(x)
    except (TypeError, ValueError, OverflowError):
        return None
    if fr <= 0:
        return None
    n, d = fr.numerator, fr.denominator
    if d == 1 and n & (n - 1) == 0:
        return n.bit_length() - 1
    if n == 1 and d & (d - 1) == 0:
        return -(d.bit_length() - 1)
    return None


# ----------------------------------------------------------------------------------------
# SBool
# ----------------------------------------------------------------------------------------
class SBool:
    __slots__ = ('t',)
    def __init__(self, t):
        self.t = t
    def __bool__(self):
        return CTX.decide(self.t)
    def __and__(self, o):
        if isinstance(o, (bool, SBool)) or _npbool(o):
            return mkbool(z3.And(self.t, as_z3bool(o)))
        return NotImplemented
    __rand__ = __and__
    def __or__(self, o):
        if isinstance(o, (bool, SBool)) or _npbool(o):
            return mkbool(z3.Or(self.t, as_z3bool(o)))
        return NotImplemented
    __ror__ = __or__
    def __invert__(self):
        raise Undecided('~ on a Python bool proxy')
    def __eq__(self, o):
        if isinstance(o, (bool, SBool)):
            return mkbool(self.t == as_z3bool(o))
        if isinstance(o, (int, SNum)):
            return mkbool(zint(self) == zterm(o))
        return NotImplemented
    def __ne__(self, o):
        r = self.__eq__(o)
        return r if r is NotImplemented else bnot(r)
    def __hash__(self):
        raise Undecided('hash of symbolic bool')
    def __index__(self):
        raise Undecided('index of symbolic bool')
    def __int__(self):
        raise Undecided('int() of symbolic bool outside the shim')
    def __deepcopy__(self, memo):
        return self
    def __copy__(self):
        return self
    def __repr__(self):
        return 'SBool(%s)' % (self.t,)
    def __format__(self, spec):
        return '<symbolic bool>'
    # arithmetic as 0/1
    def _num(self):
        return SNum(zint(self))
    def __add__(self, o): return self._num() + o
    def __radd__(self, o): return o + self._num()
    def __mul__(self, o): return self._num() * o
    def __rmul__(self, o): return o * self._num()
    def __sub__(self, o): return self._num() - o
    def __rsub__(self, o): return o - self._num()


def _npbool(o):
    return type(o).__name__ in ('bool_', 'bool') and not isinstance(o, (SBool,))

def mkbool(t):
    """Fold to a Python bool when the term is constant."""
    t = z3.simplify(t)
    if _is_true(t):
        return True
    if _is_false(t):
        return False
    return SBool(t)

def bnot(b):
    if isinstance(b, (SBool, MBool)):
        return type(b)(z3.Not(b.t)) if isinstance(b, MBool) else mkbool(z3.Not(b.t))
    return not b

def band(*bs):
    if all(isinstance(b, bool) or _npbool(b) for b in bs):
        return all(bool(b) for b in bs)
    return mkbool(z3.And(*[as_z3bool(b) for b in bs]))

def bor(*bs):
    if all(isinstance(b, bool) or _npbool(b) for b in bs):
        return any(bool(b) for b in bs)
    return mkbool(z3.Or(*[as_z3bool(b) for b in bs]))


# ----------------------------------------------------------------------------------------
# SNum: a symbolic *Python* number (int or float).  NumPy dtype semantics live in arr.py.
# ----------------------------------------------------------------------------------------
class SNum:
    """t    : z3 Int term (Python int) or Real term (Python float).
       dy   : for floats, optional (iw, g): t == iw / 2**g with iw an Int term (dyadic witness);
              floats without dy are free reals (only scaling by 2**k, rounding, comparison allowed).
       kc   : optional z3 Bool: when present the Python kind is int iff kc (merged int/float value);
              the term is then Real-sorted."""
    __slots__ = ('t', 'dy', 'kc')
    def __init__(self, t, dy=None, kc=None):
        self.t = t
        self.dy = dy
        self.kc = kc

    @property
    def isint(self):
        return z3.is_int(self.t)

    # ---- construction helpers ---------------------------------------------------------
    @staticmethod
    def of_int(t):
        return SNum(t)

    @staticmethod
    def float_of_intterm(iw, g=0):
        """float value iw / 2**g (exactness is the caller's obligation)."""
        t = z3.ToReal(iw) if g == 0 else z3.ToReal(iw) * zreal(Fraction(pow2(-g)))
        return SNum(z3.simplify(t), dy=(iw, g))

    # ---- fail closed ------------------------------------------------------------------
    def __bool__(self):
        return CTX.decide(self.t != 0)
    def __hash__(self):
        raise Undecided('hash of symbolic number')
    def __index__(self):
        raise Undecided('symbolic number used as an index / shift count / exponent')
    def __int__(self):
        raise Undecided('int() of symbolic number outside the shim')
    def __float__(self):
        raise Undecided('float() of symbolic number outside the shim')
    def __iter__(self):
        raise Undecided('iteration over symbolic number')
    def __deepcopy__(self, memo):
        return self
    def __copy__(self):
        return self
    def __repr__(self):
        return 'SNum(%s%s)' % (self.t, '' if self.dy is None else ' dy=%s/2^%d' % self.dy)
    def __format__(self, spec):
        return '<symbolic number>'
    def __str__(self):
        return '<symbolic number>'

    # ---- attributes Python numbers have -------------------------------------------------
    @property
    def real(self):
        return self
    @property
    def imag(self):
        return 0 if self.isint else 0.0

    # ---- comparisons ------------------------------------------------------------------
    def _cmp(self, o, op):
        if isinstance(o, (SNum, SBool, int, float, bool, Fraction)) and not _isnonfinite(o):
            a, b = zterm(self), zterm(o)
            return mkbool(cmp_terms(a, b, op))
        if isinstance(o, float):   # inf / nan
            return _cmp_nonfinite(self, o, op)
        return NotImplemented
    def __lt__(self, o): return self._cmp(o, lambda a, b: a < b)
    def __le__(self, o): return self._cmp(o, lambda a, b: a <= b)
    def __gt__(self, o): return self._cmp(o, lambda a, b: a > b)
    def __ge__(self, o): return self._cmp(o, lambda a, b: a >= b)
    def __eq__(self, o):
        if o is None:
            return False
        return self._cmp(o, lambda a, b: a == b)
    def __ne__(self, o):
        if o is None:
            return True
        return self._cmp(o, lambda a, b: a != b)

    # ---- arithmetic ------------------------------------------------------------------
    def __neg__(self):
        if self.isint:
            return SNum(z3.simplify(-self.t))
        dy = None if self.dy is None else (z3.simplify(-self.dy[0]), self.dy[1])
        return SNum(z3.simplify(-self.t), dy, self.kc)
    def __pos__(self):
        return self
    def __abs__(self):
        if self.isint:
            return SNum(z3.simplify(z3.If(self.t >= 0, self.t, -self.t)))
        dy = None
        if self.dy is not None:
            iw = self.dy[0]
            dy = (z3.simplify(z3.If(iw >= 0, iw, -iw)), self.dy[1])
        return SNum(z3.simplify(z3.If(self.t >= 0, self.t, -self.t)), dy, self.kc)

    def __add__(self, o): return py_binop('add', self, o)
    def __radd__(self, o): return py_binop('add', o, self)
    def __sub__(self, o): return py_binop('sub', self, o)
    def __rsub__(self, o): return py_binop('sub', o, self)
    def __mul__(self, o): return py_binop('mul', self, o)
    def __rmul__(self, o): return py_binop('mul', o, self)
    def __truediv__(self, o): return py_binop('truediv', self, o)
    def __rtruediv__(self, o): return py_binop('truediv', o, self)
    def __floordiv__(self, o): return py_binop('floordiv', self, o)
    def __rfloordiv__(self, o): return py_binop('floordiv', o, self)
    def __mod__(self, o): return py_binop('mod', self, o)
    def __rmod__(self, o): return py_binop('mod', o, self)
    def __lshift__(self, o): return py_binop('lshift', self, o)
    def __rlshift__(self, o): return py_binop('lshift', o, self)
    def __rshift__(self, o): return py_binop('rshift', self, o)
    def __rrshift__(self, o): return py_binop('rshift', o, self)
    def __and__(self, o): return py_binop('and', self, o)
    def __rand__(self, o): return py_binop('and', o, self)
    def __or__(self, o): return py_binop('or', self, o)
    def __ror__(self, o): return py_binop('or', o, self)
    def __xor__(self, o): return py_binop('xor', self, o)
    def __rxor__(self, o): return py_binop('xor', o, self)
    def __pow__(self, o): return py_binop('pow', self, o)
    def __rpow__(self, o): return py_binop('pow', o, self)
    def __invert__(self):
        if not self.isint:
            raise TypeError("bad operand type for unary ~: 'float'")
        return SNum(z3.simplify(-self.t - 1))


def _isnonfinite(o):
    return isinstance(o, float) and (o != o or o in (float('inf'), float('-inf')))

def _cmp_nonfinite(s, o, op):
    if o != o:
        return op(0, 1) and op(1, 0) and False if True else False   # nan: every ordered comparison False
    # +-inf: compare a finite value with the sign
    big = 1 if o > 0 else -1
    return bool(op(0, big))

def _coerce_pair(a, b):
    """z3 terms of two Python-level numbers with a common sort."""
    ta, tb = zterm(a), zterm(b)
    if z3.is_int(ta) and z3.is_int(tb):
        return ta, tb
    return (z3.ToReal(ta) if z3.is_int(ta) else ta), (z3.ToReal(tb) if z3.is_int(tb) else tb)

def kind_of(x):
    """'int' | 'float' | 'num' for a Python-level scalar (concrete or symbolic)."""
    if isinstance(x, SNum):
        if x.kc is not None:
            return 'num'
        return 'int' if x.isint else 'float'
    if isinstance(x, (SBool, bool, int)):
        return 'int'
    if isinstance(x, float):
        return 'float'
    raise CheckerError('kind_of(%r)' % (type(x),))

def dyadic_of(x):
    """(iw, g) with value == iw/2**g for float-kind x (concrete or symbolic), or None."""
    if isinstance(x, SNum):
        if x.isint:
            return (x.t, 0)
        return x.dy
    if isinstance(x, (bool, int)):
        return (z3.IntVal(int(x)), 0)
    if isinstance(x, SBool):
        return (zint(x), 0)
    if isinstance(x, float):
        if _isnonfinite(x):
            return None
        fr = Fraction(x)
        g = fr.denominator.bit_length() - 1
        return (z3.IntVal(fr.numerator), g)
    return None

def side_float_exact(iw, what):
    """FP-exact side condition: the exact result iw/2^g is a double when |iw| <= 2^53.  Proved under the
    path condition when possible; otherwise the caller falls back to the sound over-approximation
    (approx_float), so an unproved side condition never makes a discharged clause unsound."""
    iw = z3.simplify(iw)
    if z3.is_int_value(iw):
        v = abs(iw.as_long())
        while v and v % 2 == 0:
            v //= 2
        return v < TWO53
    ok = CTX.valid(z3.And(iw <= TWO53, iw >= -TWO53))
    if ok:
        CTX.fp_exact_proved += 1
    return ok

def float_result(iw, g, what):
    """Build the float iw/2^g after emitting the exactness side obligation.
    If exactness cannot be shown the result is an unconstrained double near the exact value:
    we do not model the rounding error, so the value becomes a fresh real within relative
    2^-53 of the exact one (sound over-approximation)."""
    ok = side_float_exact(iw, what)
    exact = SNum.float_of_intterm(iw, g)
    if ok:
        return exact
    return approx_float(exact.t, what)

def approx_float(e, what):
    """A double within relative 2^-53 of the exact real e (sound over-approximation of one correctly
    rounded IEEE operation; a function of e: the same exact value always rounds to the same double).
    Obligations that fail on a path that used this are confirmed by replay."""
    e = z3.simplify(e)
    key = ('rnd', e.get_id())
    hit = CTX.mod_memo.get(key)
    if hit is not None:
        return SNum(hit[0])
    CTX.notes.append('float rounding over-approximated at %s' % what)
    CTX.approx_used = True
    CTX.fp_approx += 1
    r = CTX.fresh('rnd', 'real')
    ae = z3.If(e >= 0, e, -e)
    CTX.solver.add(r - e <= ae * zreal(Fraction(1, 2**53)), e - r <= ae * zreal(Fraction(1, 2**53)))
    CTX.mod_memo[key] = (r, e)
    return SNum(r)

def _pow2_content(t):
    """largest j such that the simplified Int term t is syntactically 2^j * t' ; returns (t', j)"""
    t = z3.simplify(t)
    def tz(n):
        n = abs(n)
        if n == 0:
            return 10**6
        return (n & -n).bit_length() - 1
    def content(u):
        if z3.is_int_value(u):
            return tz(u.as_long())
        if z3.is_app(u):
            k = u.decl().kind()
            if k == z3.Z3_OP_MUL:
                return sum(content(a) if z3.is_int_value(a) else 0 for a in u.children())
            if k == z3.Z3_OP_ADD:
                return min(content(a) for a in u.children())
            if k == z3.Z3_OP_ITE:
                return min(content(u.arg(1)), content(u.arg(2)))
        return 0
    j = content(t)
    if j <= 0 or j >= 10**6:
        return t, 0
    def divide(u):
        if z3.is_int_value(u):
            return z3.IntVal(u.as_long() >> j) if u.as_long() >= 0 else z3.IntVal(-((-u.as_long()) >> j))
        k = u.decl().kind()
        if k == z3.Z3_OP_MUL:
            out = []; left = j
            for a in u.children():
                if z3.is_int_value(a) and left > 0:
                    c = a.as_long(); d = min(tz(c), left)
                    out.append(z3.IntVal(c // (1 << d))); left -= d
                else:
                    out.append(a)
            r = out[0]
            for a in out[1:]:
                r = r * a
            return r
        if k == z3.Z3_OP_ADD:
            parts = [divide(a) for a in u.children()]
            r = parts[0]
            for a in parts[1:]:
                r = r + a
            return r
        if k == z3.Z3_OP_ITE:
            return z3.If(u.arg(0), divide(u.arg(1)), divide(u.arg(2)))
        raise CheckerError('pow2 content')
    return z3.simplify(divide(t)), j


def to_float(x, what='int->float'):
    """Python float(x) for int-kind x."""
    if isinstance(x, float):
        return x
    if isinstance(x, (bool, int)):
        return float(x)
    if isinstance(x, SBool):
        x = SNum(zint(x))
    if isinstance(x, SNum):
        if not x.isint:
            return x
        t, j = _pow2_content(x.t)
        return float_result(t, -j, what)
    raise CheckerError('to_float(%r)' % (x,))

def py_binop(op, a, b):
    """Python semantics of a <op> b for Python-level numbers, at least one symbolic."""
    for v in (a, b):
        if not isinstance(v, (SNum, SBool, bool, int, float)):
            return NotImplemented
    if isinstance(a, SBool): a = SNum(zint(a))
    if isinstance(b, SBool): b = SNum(zint(b))
    if _isnonfinite(a) or _isnonfinite(b):
        raise Undecided('non-finite float in symbolic arithmetic')
    ka, kb = kind_of(a), kind_of(b)
    both_int = (ka == 'int' and kb == 'int')
    if op in ('lshift', 'rshift', 'and', 'or', 'xor'):
        if not both_int:
            raise TypeError('unsupported operand type(s) for bit operation: float')
        return _int_bitop(op, a, b)
    if op == 'pow':
        return _pow(a, b)
    if both_int:
        ta, tb = zint(a), zint(b)
        if op == 'add': return SNum(z3.simplify(ta + tb))
        if op == 'sub': return SNum(z3.simplify(ta - tb))
        if op == 'mul':
            return SNum(_mul_int(ta, tb))
        if op == 'truediv':
            return _truediv(a, b)
        if op in ('floordiv', 'mod'):
            return _int_divmod(op, ta, tb, b)
    # float arithmetic
    if op == 'truediv':
        return _truediv(a, b)
    if op in ('floordiv', 'mod'):
        return _float_divmod(op, a, b)
    fa, fb = to_float(a), to_float(b)
    if op == 'mul':
        # scaling by a concrete power of two is exact for any double (no over/underflow assumed)
        for x, y in ((fa, fb), (fb, fa)):
            if isinstance(y, float):
                k = log2_exact(abs(y)) if y != 0 else None
                if y == 0:
                    return 0.0 * 1.0
                if k is not None:
                    sgn = 1 if y > 0 else -1
                    xt = zreal(x)
                    dy = None
                    if x.dy is not None:
                        iw, g = x.dy
                        dy = (z3.simplify(iw * sgn), g - k)
                    return SNum(z3.simplify(xt * zreal(Fraction(y))), dy)
        da, db = dyadic_of(fa), dyadic_of(fb)
        if da is None or db is None:
            return approx_float(z3.simplify(zreal(fa) * zreal(fb)), 'float*float (free real)')
        return float_result(_mul_int(da[0], db[0]), da[1] + db[1], 'float*float')
    if op in ('add', 'sub'):
        da, db = dyadic_of(fa), dyadic_of(fb)
        if da is None or db is None:
            ex = zreal(fa) + zreal(fb) if op == 'add' else zreal(fa) - zreal(fb)
            return approx_float(z3.simplify(ex), 'float+-float (free real)')
        g = max(da[1], db[1])
        x = da[0] * (1 << (g - da[1]))
        y = db[0] * (1 << (g - db[1]))
        return float_result(z3.simplify(x + y if op == 'add' else x - y), g, 'float%sfloat' % ('+' if op == 'add' else '-'))
    raise Undecided('python binop %s' % op)

def _mul_int(ta, tb):
    """Product of two Int terms; adds McCormick-free plain product (z3 NIA) -- callers that
    need range facts add them through specs.  Constants fold."""
    return z3.simplify(ta * tb)

def _pow(a, b):
    if isinstance(b, int) and not isinstance(b, bool) and b >= 0 and isinstance(a, SNum) and a.isint:
        t = z3.IntVal(1)
        for _ in range(b):
            t = t * a.t
        if b > 4:
            raise Undecided('large symbolic power')
        return SNum(z3.simplify(t))
    if isinstance(a, (int, float)) and isinstance(b, SNum):
        raise Undecided('constant ** symbolic exponent')
    if isinstance(b, (int,)) and isinstance(a, SNum) and not a.isint and b == 2:
        return py_binop('mul', a, a)
    raise Undecided('symbolic power')

def _int_bitop(op, a, b):
    if op in ('lshift', 'rshift'):
        if not isinstance(b, int):
            raise Undecided('symbolic shift count')
        if b < 0:
            raise ValueError('negative shift count')
        ta = zint(a)
        if op == 'lshift':
            return SNum(z3.simplify(ta * (1 << b)))
        CTX.assumed_used.add('B3: x >> k == floor(x / 2^k)')
        return SNum(CTX.div(ta, 1 << b)) if b > 0 else SNum(ta)
    # & | ^
    for x, y in ((a, b), (b, a)):
        if isinstance(y, int) and not isinstance(y, bool) and isinstance(x, SNum):
            tx = x.t
            if op == 'and' and y >= 0 and (y & (y + 1)) == 0:
                # B1: x & (2^n - 1) == x mod 2^n
                CTX.assumed_used.add('B1: x & (2^n-1) == x mod 2^n')
                if y == 0:
                    return 0
                return SNum(CTX.mod(tx, y + 1))
            if op == 'and' and y > 0 and (y & (y - 1)) == 0:
                # single-bit test: x & 2^k == 2^k * (floor(x/2^k) mod 2)
                CTX.assumed_used.add('B1b: x & 2^k == 2^k*((x>>k) mod 2)')
                k = y.bit_length() - 1
                q = CTX.div(tx, 1 << k) if k > 0 else tx
                return SNum(z3.simplify(CTX.mod(q, 2) * y))
            if op == 'or' and y < 0 and ((-y) & (-y - 1)) == 0:
                # B2: x | (-2^n) == (x mod 2^n) - 2^n
                CTX.assumed_used.add('B2: x | (-2^n) == (x mod 2^n) - 2^n')
                return SNum(z3.simplify(CTX.mod(tx, -y) + y))
            if y == 0:
                if op == 'and':
                    return 0
                return x
    # general case
    ta, tb = zint(a), zint(b)
    # (a) both operands are known n-bit patterns with small n: exact bit-blasting
    wa = _width_of(ta); wb = _width_of(tb)
    if wa is not None and wb is not None and max(wa, wb) <= BITBLAST_MAX:
        n = max(wa, wb)
        mkey = ('bb', op, ta.get_id(), tb.get_id())
        hit = CTX.mod_memo.get(mkey)
        if hit is not None:
            return SNum(hit[0])
        ba, bb = CTX.bits(ta, n), CTX.bits(tb, n)
        CTX.assumed_used.add('B4: &,|,^ on n-bit non-negative ints are bitwise on their binary digits (bit-blasted, n<=%d)' % BITBLAST_MAX)
        terms = []
        for i in range(n):
            if op == 'and':
                bit = z3.If(z3.And(ba[i] == 1, bb[i] == 1), 1, 0)
            elif op == 'or':
                bit = z3.If(z3.Or(ba[i] == 1, bb[i] == 1), 1, 0)
            else:
                bit = z3.If(ba[i] != bb[i], 1, 0)
            terms.append(bit * (1 << i))
        r = z3.simplify(z3.Sum(terms)) if terms else z3.IntVal(0)
        res = CTX.fresh('bw', 'int')
        CTX.solver.add(res == r)
        CTX.width_hint[res.get_id()] = (n, res)
        CTX.mod_memo[mkey] = (res, ta, tb)
        return SNum(res)
    # (b) uninterpreted bit function with range facts for non-negative operands (B4)
    CTX.assumed_used.add('B4: &,|,^ uninterpreted on ints with range facts')
    f = CTX.ufunc('bit_' + op, 'int', 'int', 'int')
    r = f(ta, tb)
    key = ('bit', op, ta.get_id(), tb.get_id())
    CTX.approx_used = True        # uninterpreted: counter-models must be confirmed by replay
    if wa is not None and wb is not None:
        CTX.width_hint[r.get_id()] = (max(wa, wb), r)
    if key not in CTX.mod_memo:
        CTX.mod_memo[key] = True
        nn = z3.And(ta >= 0, tb >= 0)
        if wa is not None and wb is not None:
            CTX.solver.add(r >= 0, r < (1 << max(wa, wb)))
        if op == 'and':
            CTX.solver.add(z3.Implies(nn, z3.And(r >= 0, r <= ta, r <= tb)))
        elif op == 'or':
            CTX.solver.add(z3.Implies(nn, z3.And(r >= ta, r >= tb, r <= ta + tb)))
        else:
            CTX.solver.add(z3.Implies(nn, z3.And(r >= 0, r <= ta + tb)))
    return SNum(r)


BITBLAST_MAX = 12

def _width_of(t):
    """n if the Int term t is known (by construction) to lie in [0, 2^n)"""
    if z3.is_int_value(t):
        v = t.as_long()
        return v.bit_length() if v >= 0 else None
    h = CTX.width_hint.get(t.get_id())
    return h[0] if h is not None else None


def _sign_fork(b, what):
    """Concrete sign of divisor b (+1 / -1); forks when symbolic; 0 -> ZeroDivisionError."""
    if isinstance(b, (int, float)):
        if b == 0:
            raise ZeroDivisionError(what)
        return 1 if b > 0 else -1
    if b == 0:
        raise ZeroDivisionError(what)
    return 1 if b > 0 else -1

def _int_divmod(op, ta, tb, b):
    if isinstance(b, (int,)) and not isinstance(b, bool):
        if b == 0:
            raise ZeroDivisionError('integer division or modulo by zero')
        if b > 0:
            return SNum(CTX.div(ta, b)) if op == 'floordiv' else SNum(CTX.mod(ta, b))
        # a // b == (-a) // (-b);  a % b == -((-a) % (-b))
        na = z3.simplify(-ta)
        if op == 'floordiv':
            return SNum(CTX.div(na, -b))
        return SNum(z3.simplify(-CTX.mod(na, -b)))
    # symbolic divisor: witness q, r with a == b*q + r, 0 <= r < b (b>0) or b < r <= 0 (b<0)
    sgn = _sign_fork(b, 'integer division or modulo by zero')
    key = ('sdiv', ta.get_id(), tb.get_id())
    hit = CTX.mod_memo.get(key)
    if hit is None:
        q = CTX.fresh('dq', 'int')
        r = CTX.fresh('dr', 'int')
        CTX.solver.add(ta == tb * q + r)
        if sgn > 0:
            CTX.solver.add(r >= 0, r < tb)
        else:
            CTX.solver.add(r <= 0, r > tb)
        hit = (q, r)
        CTX.mod_memo[key] = hit
    return SNum(hit[0]) if op == 'floordiv' else SNum(hit[1])

def _truediv(a, b):
    """Python true division (correctly rounded): exact when the exact quotient is a double."""
    if isinstance(b, (int, float)) and not isinstance(b, bool):
        if b == 0:
            raise ZeroDivisionError('division by zero')
        k = log2_exact(abs(b))
        if k is not None:
            sgn = 1 if b > 0 else -1
            if kind_of(a) == 'int':
                iw = z3.simplify(zint(a) * sgn)
                return float_result(iw, k, 'int/2^k')
            fa = a
            dy = None
            if fa.dy is not None:
                iw, g = fa.dy
                dy = (z3.simplify(iw * sgn), g + k)
            return SNum(z3.simplify(zreal(fa) / zreal(Fraction(b))), dy)
        # concrete non-power-of-two divisor: exact iff divisible
        fb = Fraction(b)
        da = dyadic_of(a if kind_of(a) != 'int' else a)
        if da is None:
            raise Undecided('free real divided by a non power of two')
        iw, g = da
        # a/b = iw/2^g * den/num
        num, den = fb.numerator, fb.denominator
        kd = log2_exact(den)
        if kd is None:
            raise Undecided('divisor is not dyadic')
        top = z3.simplify(iw * den)
        sgn = 1 if num > 0 else -1
        num = abs(num)
        ok = CTX.valid(CTX.mod(top, num) == 0)
        if not ok:
            raise Undecided('float quotient not exactly representable')
        return float_result(z3.simplify(CTX.div(top, num) * sgn), g, 'float/const')
    # symbolic divisor
    _sign_fork(b, 'division by zero')
    raise Undecided('true division by a symbolic divisor (python level)')

def _float_divmod(op, a, b):
    raise Undecided('python float // or % with symbolic operands')


# ----------------------------------------------------------------------------------------
# MTerm / MBool : pure mathematics for specification text (no Python/NumPy semantics)
# ----------------------------------------------------------------------------------------
class MBool:
    __slots__ = ('t',)
    def __init__(self, t):
        self.t = t
    def __bool__(self):
        s = z3.simplify(self.t)
        if _is_true(s): return True
        if _is_false(s): return False
        raise CheckerError('spec text branched on a symbolic condition')
    def __and__(self, o): return MBool(z3.And(self.t, as_z3bool(o)))
    __rand__ = __and__
    def __or__(self, o): return MBool(z3.Or(self.t, as_z3bool(o)))
    __ror__ = __or__
    def __invert__(self): return MBool(z3.Not(self.t))
    def __eq__(self, o): return MBool(self.t == as_z3bool(o))
    def __ne__(self, o): return MBool(self.t != as_z3bool(o))
    def __hash__(self): raise CheckerError('hash MBool')
    def __repr__(self): return 'MBool(%s)' % self.t


class MTerm:
    __slots__ = ('t',)
    def __init__(self, t):
        self.t = t
    def _b(self, o, f):
        to = mterm(o).t
        a, b = self.t, to
        if z3.is_int(a) != z3.is_int(b):
            a = z3.ToReal(a) if z3.is_int(a) else a
            b = z3.ToReal(b) if z3.is_int(b) else b
        return f(a, b)
    def __add__(self, o): return MTerm(self._b(o, lambda a, b: a + b))
    __radd__ = __add__
    def __sub__(self, o): return MTerm(self._b(o, lambda a, b: a - b))
    def __rsub__(self, o): return MTerm(self._b(o, lambda a, b: b - a))
    def __mul__(self, o): return MTerm(self._b(o, lambda a, b: a * b))
    __rmul__ = __mul__
    def __truediv__(self, o):
        o = mterm(o)
        return MTerm(zreal(self) / zreal(o))
    def __rtruediv__(self, o):
        return MTerm(zreal(mterm(o)) / zreal(self))
    def __neg__(self): return MTerm(-self.t)
    def __abs__(self): return MTerm(z3.If(self.t >= 0, self.t, -self.t))
    def __lt__(self, o): return MBool(cmp_terms(self.t, mterm(o).t, lambda a, b: a < b))
    def __le__(self, o): return MBool(cmp_terms(self.t, mterm(o).t, lambda a, b: a <= b))
    def __gt__(self, o): return MBool(cmp_terms(self.t, mterm(o).t, lambda a, b: a > b))
    def __ge__(self, o): return MBool(cmp_terms(self.t, mterm(o).t, lambda a, b: a >= b))
    def __eq__(self, o):
        if o is None: return False
        return MBool(cmp_terms(self.t, mterm(o).t, lambda a, b: a == b))
    def __ne__(self, o):
        if o is None: return True
        return MBool(cmp_terms(self.t, mterm(o).t, lambda a, b: a != b))
    def __hash__(self): raise CheckerError('hash MTerm')
    def __bool__(self): raise CheckerError('truth value of MTerm')
    def __repr__(self): return 'MTerm(%s)' % self.t


def mterm(x):
    if isinstance(x, MTerm):
        return x
    if isinstance(x, SNum):
        return MTerm(x.t)
    if isinstance(x, SBool):
        return MTerm(zint(x))
    if isinstance(x, (bool, int)):
        return MTerm(z3.IntVal(int(x)))
    if isinstance(x, (float, Fraction)):
        return MTerm(zreal(x))
    try:
        import numpy as _np
        if isinstance(x, _np.integer):
            return MTerm(z3.IntVal(int(x)))
        if isinstance(x, _np.floating):
            return MTerm(zreal(float(x)))
        if isinstance(x, _np.bool_):
            return MTerm(z3.IntVal(int(x)))
    except ImportError:
        pass
    raise CheckerError('mterm(%r)' % (type(x),))
