"""fxpv.bounded -- the bounded stand-in: run-time evaluation of a contract (native back end of the
same text) on the UNTRANSFORMED library over an explicit, stated domain.

Used (a) to confirm / find a replayable input for an obligation the prover refuted with a model that
is not a double or lies in an over-approximated region, (b) as the fall-back when a path is
undecided, (c) as an extra engine cross-check.  Its evaluations are never counted as discharged
obligations.
"""
import itertools
import random
from fractions import Fraction

from . import core, harness


def _int_cands(lo, hi, around=None, rng=None, nrand=6):
    c = {0, 1, -1, 2, -2, 3}
    for v in (lo, hi):
        if v is not None:
            c.update({v, v + 1, v - 1, v + 2, v - 2})
    span_hi = hi if hi is not None else 2**70
    span_lo = lo if lo is not None else -2**70
    k = 1
    while k <= max(abs(span_hi), abs(span_lo)) and k < 2**80:
        c.update({k, k - 1, k + 1, -k, -k - 1, -k + 1})
        k *= 2
    if around is not None:
        c.update({around + d for d in (-2, -1, 0, 1, 2)})
    if rng is not None:
        for _ in range(nrand):
            c.add(rng.randint(span_lo, span_hi))
    return sorted(v for v in c if (lo is None or v >= lo) and (hi is None or v <= hi))


def _real_cands(lo, hi, cfg, around=None, rng=None, nrand=6):
    f = cfg.get('n_frac', 0) if isinstance(cfg.get('n_frac', 0), int) else 0
    if cfg.get('raw'):
        f = 0
    n = cfg.get('n_word', 8) if isinstance(cfg.get('n_word', 8), int) else 8
    signed = cfg.get('signed', True)
    lsb = core.pow2(-f)
    cl, ch = (-(1 << (n - 1)), (1 << (n - 1)) - 1) if signed else (0, (1 << n) - 1)
    centers = {0, 1, -1, cl, ch, cl - 1, ch + 1, 2 * ch, 2 * cl, 3 * ch}
    if around is not None:
        a = Fraction(around) / Fraction(lsb)
        centers.add(a.numerator // a.denominator)
    out = set()
    for k in centers:
        for q in range(-6, 7):
            out.add(Fraction(4 * k + q, 4) * Fraction(lsb))
    if around is not None:
        out.add(Fraction(around))
    if rng is not None:
        for _ in range(nrand):
            k = rng.randint(3 * cl - 3, 3 * ch + 3)
            out.add(Fraction(4 * k + rng.randint(0, 3), 4) * Fraction(lsb))
            out.add(Fraction(rng.uniform(float(3 * cl - 3), float(3 * ch + 3))) * Fraction(lsb))
    res = []
    for v in out:
        if lo is not None and v < lo: continue
        if hi is not None and v > hi: continue
        if harness._is_double(v):
            res.append(v)
    return sorted(res)


def candidates(meta, cfg, model=None, rng=None):
    """per-input candidate lists"""
    out = {}
    model = model or {}
    for name, m in meta.items():
        a = model.get(name)
        if m[0] == 'int':
            out[name] = _int_cands(m[1], m[2], a if isinstance(a, int) else None, rng)
        elif m[0] == 'dyadic':
            lo = m[2] if m[2] is not None else -(2**53)
            hi = m[3] if m[3] is not None else 2**53
            out[name] = _int_cands(lo, hi, a if isinstance(a, int) else None, rng)
        elif m[0] == 'real':
            av = None
            if a is not None:
                av = harness._unjs({'x': a})['x'] if isinstance(a, str) else a
            out[name] = _real_cands(m[1], m[2], cfg, av, rng)
        elif m[0] == 'bool':
            out[name] = [False, True]
    return out


def search(cname, cfg, meta, model=None, seed=0, budget=1500, want_clause=None):
    """Native evaluations around `model` and over boundary / seeded-random points.
    -> (evaluations, first failure or None) ; failure = {'inputs':..., 'failed_clauses': [...], 'obs':...}"""
    rng = random.Random(seed)
    cands = candidates(meta, cfg, model, rng)
    names = list(cands)
    base = {}
    for n in names:
        v = (model or {}).get(n)
        if v is None or (meta[n][0] == 'real' and not harness._is_double(harness._unjs({'x': v})['x'] if isinstance(v, str) else v)):
            v = cands[n][len(cands[n]) // 2] if cands[n] else 0
        base[n] = v
    evals = 0
    seen = set()
    def trial(vals):
        nonlocal evals
        key = tuple(str(vals[n]) for n in names)
        if key in seen:
            return None
        seen.add(key)
        evals += 1
        r = harness.replay_inputs(cname, cfg, vals)
        if r.get('replayable') and r.get('failed_clauses'):
            if want_clause is None or True:
                return r
        return None
    # 1. the model point itself, 2. coordinate-wise variation, 3. random combinations
    r = trial(dict(base))
    if r: return evals, r
    for n in names:
        for v in cands[n]:
            vals = dict(base); vals[n] = v
            r = trial(vals)
            if r: return evals, r
            if evals >= budget: return evals, None
    while evals < budget:
        vals = {n: rng.choice(cands[n]) if cands[n] else base[n] for n in names}
        r = trial(vals)
        if r: return evals, r
        if len(seen) >= _space(cands):
            break
    return evals, None


def _space(cands):
    n = 1
    for v in cands.values():
        n *= max(1, len(v))
        if n > 10**9:
            break
    return n
