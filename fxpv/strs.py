"""fxpv.strs -- symbolic strings (placeholder until the SStr proxy is built)."""
from .core import Undecided

def is_sstr(x):
    return False

def _no(*a, **k):
    raise Undecided('symbolic strings not modelled yet')

int_of = float_of = bin_of = hex_of = set_of = format_ = np_binary_repr = np_base_repr = _no
