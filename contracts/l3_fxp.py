"""Layer 3/4 contracts: construction and the public store routes of Fxp (set_val body inlined; the
numeric helpers below it are stubbed by their contracts)."""
from fractions import Fraction
from fxpv.harness import Contract, contract
from specs.core import *
from contracts.common import *
from contracts.l2_core import MODES, rel_round

LOWER = ('utils:wrap', 'utils:clip', 'objects:Fxp._get_conv_factor', 'objects:Fxp._round', 'objects:Fxp._overflow_action')

INT_DTYPES = ['int8', 'int16', 'int32', 'int64', 'uint8', 'uint16', 'uint32', 'uint64']
FLT_DTYPES = ['float16', 'float32', 'float64']


def carrier_list(tier):
    base = [('pyfloat', []), ('pyint', []), ('list', [2]), ('tuple', [2]), ('nested', [2, 2]), ('nestedtuple', [2, 2]),
            ('mixedlist', [2]), ('arr:float64', [2]), ('arr:float64', []), ('arr:int64', [2]), ('np:float64', []), ('np:int64', [])]
    more = [('np:' + d, []) for d in INT_DTYPES + FLT_DTYPES if d not in ('float64', 'int64')] + \
           [('arr:' + d, [2]) for d in INT_DTYPES + FLT_DTYPES if d not in ('float64', 'int64')] + \
           [('arr:float64', [3]), ('arr:float64', [2, 2]), ('arr:int64', [1])] + \
           [('nplist:' + d, [2]) for d in ('uint8', 'int8', 'int32', 'uint16', 'float16', 'float32')] + \
           [('arrF:float64', [2, 2]), ('arrF:int64', [2, 2])]      # Python lists of narrow NumPy integer / float scalars; 2-d arrays in Fortran (transposed) memory order
    return base + more


def carrier_inputs(D, kind, shape, f, signed, n_word, raw=False):
    """symbolic element values for a carrier, inside the core domain |v| < 2^53, |v*2^f| < 2^62"""
    n = nelem(shape)
    lim = min(Fraction(2**53), Fraction(2**62) * pow2(-f)) if not raw else Fraction(2**53)
    def ints(lo, hi):
        li = int(lim) if lim == int(lim) else int(lim) + 1
        return [D.int('v%d' % i, max(lo, -li + 1), min(hi, li - 1)) for i in range(n)]
    if kind in ('pyfloat', 'list', 'tuple', 'nested', 'nestedtuple'):
        return [D.real('v%d' % i, -lim, lim, True, True) for i in range(n)]
    if kind == 'pyint':
        return ints(-2**62, 2**62)
    if kind == 'pybool':
        return [D.bool('v0')]
    if kind == 'mixedlist':
        li = int(lim) if lim == int(lim) else int(lim) + 1
        return [D.int('v0', -li + 1, li - 1), D.real('v1', -lim, lim, True, True)]
    dt = kind.split(':')[1]
    if dt == 'bool':
        return [D.bool('v%d' % i) for i in range(n)]
    if dt in INT_DTYPES:
        import numpy as np
        info = np.iinfo(dt)
        return ints(int(info.min), int(info.max))
    if dt == 'float64':
        return [D.real('v%d' % i, -lim, lim, True, True) for i in range(n)]
    # float32 / float16: quarter-integers that are exactly representable in the narrow type
    mant = 2**20 if dt == 'float32' else 2**8
    vals = []
    for i in range(n):
        vals.append(D.dyadic('v%d' % i, 2, -mant, mant))
    for v in vals:
        D.assume(And(M(v) < lim, M(v) > -lim))
    return vals


def build_carrier(P, kind, vals, shape):
    if kind in ('pyfloat', 'pyint', 'pybool'):
        return vals[0]
    if kind in ('list', 'mixedlist'):
        return list(vals)
    if kind == 'tuple':
        return tuple(vals)
    if kind == 'nested':
        return [list(vals[0:2]), list(vals[2:4])]
    if kind == 'nestedtuple':
        return (tuple(vals[0:2]), tuple(vals[2:4]))
    k, dt = kind.split(':')
    if k == 'nplist':
        return [P.npscalar(v, dt) for v in vals]
    if k == 'np':
        return P.npscalar(vals[0], dt)
    if k == 'arrF':
        return f_ordered(P.arr(vals, dtype=dt, shape=tuple(shape)))
    return P.arr(vals, dtype=dt, shape=tuple(shape))


def store_clauses(cfg, vs, obs, st0=None, raw=False, want_shape=None):
    """the C01/C02/C04/C05 clauses every store route must satisfy (fresh object: flags start False)"""
    signed, n, f, rule, mode = cfg['signed'], cfg['n_word'], cfg['n_frac'], cfg['rule'], cfg['mode']
    lo, hi = range_of(signed, n)
    codes = [M(c) for c in elems(obs['val'])]
    gv = [M(g) for g in elems(obs['getval'])]
    out = {'count': len(codes) == len(vs), 'val_dtype': obs['val'].dtype == store_dtype(signed, n),
           'dtype_str': obs['dtype'] == fmt_str(signed, n, f)}
    if want_shape is not None:
        out['shape'] = list(obs['val'].shape) == list(want_shape)
    if len(codes) != len(vs):
        return out
    k = 0 if raw else f
    rs = [scale2(v, k) for v in vs]
    Rs = [ROUND(r, rule) for r in rs]
    for i, c in enumerate(codes):
        out['code_eq_Q[%d]' % i] = eq(c, OVF(Rs[i], signed, n, mode))
        out['in_range[%d]' % i] = And(c >= lo, c <= hi)
        out['readback[%d]' % i] = eq(gv[i], scale2(c, -f))
        inside = And(rs[i] >= lo, rs[i] <= hi)
        for nm, cl in rel_round(c, rs[i], rule).items():
            out['%s[%d]' % (nm, i)] = Implies(inside, cl)
    any_hi = Or(*[R > hi for R in Rs])
    any_lo = Or(*[R < lo for R in Rs])
    inexact = Or(*[Not(eq(scale2(codes[i], -k), vs[i])) for i in range(len(vs))])
    st1 = obs['status']
    f0 = (lambda key: False) if st0 is None else (lambda key: B(st0[key]))
    out['flag_overflow'] = Iff(B(st1['overflow']), Or(f0('overflow'), any_hi))
    out['flag_underflow'] = Iff(B(st1['underflow']), Or(f0('underflow'), any_lo))
    out['flag_inaccuracy'] = Iff(B(st1['inaccuracy']), Or(f0('inaccuracy'), inexact))
    return out


def meta_clauses(cfg, obs):
    """C02: metadata consistent with the format"""
    signed, n, f = cfg['signed'], cfg['n_word'], cfg['n_frac']
    lo, hi = range_of(signed, n)
    return {'meta_format': And(obs['signed'] == signed, obs['n_word'] == n, obs['n_frac'] == f),
            'meta_n_int': obs['n_int'] == n - f - (1 if signed else 0),
            'meta_limits': And(eq(M(obs['upper']), scale2(hi, -f)), eq(M(obs['lower']), scale2(lo, -f)), eq(M(obs['precision']), pow2(-f))),
            'meta_status_keys': set(obs['status']) == {'overflow', 'underflow', 'inaccuracy', 'extended_prec'},
            'meta_extended': obs['status']['extended_prec'] == (n >= 64),
            'meta_modes': And(obs['rounding'] == cfg['rule'], obs['overflow'] == cfg['mode'])}


def snapshot_container(val):
    """identity + content snapshot of an input container (for the non-mutation clause)"""
    if isinstance(val, list):
        return ('list', [snapshot_container(v) for v in val])
    if isinstance(val, tuple):
        return ('tuple', [snapshot_container(v) for v in val])
    return ('leaf', id(val))


STORE_PROPS = {'code_eq_Q': ['C01', 'C10'], 'in_range': ['C02'], 'readback': ['C01'], 'flag_overflow': ['C04'],
               'flag_underflow': ['C04'], 'flag_inaccuracy': ['C04'], 'dir': ['C05'], 'err_lt_lsb': ['C05'],
               'count': ['C01'], 'shape': ['C01', 'C10'], 'val_dtype': ['C02'], 'dtype_str': ['C02'],
               'meta_format': ['C02'], 'meta_n_int': ['C02'], 'meta_limits': ['C02'], 'meta_status_keys': ['C02', 'C04'],
               'meta_extended': ['C02', 'C18'], 'meta_modes': ['C02', 'C08'], 'input_unchanged': ['C20', 'C01'],
               'no_exception': ['C01', 'C02']}


def small_formats(tier):
    if tier == 'quick':
        return [(True, 8, 2), (False, 8, 3), (True, 1, 0), (False, 1, 1), (True, 3, -1), (True, 16, 17), (False, 52, 30), (True, 52, 0), (True, 31, -8)]
    return [(s, n, f) for (s, n, f) in core_formats('quick') if n in (1, 2, 3, 8, 31, 52)]


@contract
class Init(Contract):
    """Fxp(val, signed, n_word, n_frac, rounding=, overflow=): a fresh well-formed object holding the
    C01 quantization of every element of `val`, whatever the carrier; the input container is not modified."""
    name = 'objects:Fxp.__init__'
    primary = ['C01']
    secondary_stride = 5
    layer = 4
    uses = LOWER
    props = STORE_PROPS

    def configs(self, tier):
        modes = MODES if tier == 'thorough' else [('trunc', 'saturate'), ('around', 'wrap'), ('floor', 'saturate'), ('ceil', 'wrap'), ('fix', 'saturate'), ('around', 'saturate')]
        cars = carrier_list(tier)
        for (signed, n, f) in small_formats(tier):
            for (rule, mode) in modes:
                for kind, shape in cars:
                    yield dict(signed=signed, n_word=n, n_frac=f, rule=rule, mode=mode, carrier=kind, shape=shape)

    def inputs(self, cfg, D):
        return {'v': carrier_inputs(D, cfg['carrier'], cfg['shape'], cfg['n_frac'], cfg['signed'], cfg['n_word'])}

    def run(self, cfg, P, inp):
        val = build_carrier(P, cfg['carrier'], inp['v'], cfg['shape'])
        snap = snapshot_container(val)
        x = P.Fxp(val, cfg['signed'], cfg['n_word'], cfg['n_frac'], rounding=cfg['rule'], overflow=cfg['mode'])
        o = obs_fxp(x)
        o.update(getval=x.get_val(), input_unchanged=snapshot_container(val) == snap)
        return o

    def post(self, cfg, inp, obs):
        if obs['exc']:
            return {}
        vs = [M(v) if not isinstance(v, (bool,)) and not hasattr(v, 't') or True else v for v in inp['v']]
        vs = [ite(B(v), 1, 0) if cfg['carrier'] in ('pybool', 'arr:bool') else M(v) for v in inp['v']]
        out = store_clauses(cfg, vs, obs, want_shape=cfg['shape'])
        out.update(meta_clauses(cfg, obs))
        out['input_unchanged'] = obs['input_unchanged']
        return out


# ==========================================================================================================
@contract
class StoreBounded(Contract):
    """BOUNDED stand-in for the carriers of C01 the prover does not reach: decimal strings and complex values
    (each component), on every format with n_word <= 6, n_frac -2..n_word+2, all ten modes, every quarter-LSB
    input over three times the representable range; constructor, call and indexed assignment."""
    name = 'objects:Fxp.store[decimal string, complex] (bounded)'
    layer = 4
    native_only = True
    props = {'*': ['C01']}

    def configs(self, tier):
        words = (1, 2, 3, 4) if tier == 'quick' else (1, 2, 3, 4, 5, 6)
        for n in words:
            for signed in (True, False):
                for f in range(-2, n + 3):
                    yield dict(signed=signed, n_word=n, n_frac=f)

    def run(self, cfg, P, inp):
        from fractions import Fraction
        Fxp = P.Fxp
        s, n, f = cfg['signed'], cfg['n_word'], cfg['n_frac']
        lo, hi = range_of(s, n)
        span = hi - lo + 1
        bad = []; cases = 0
        def chk(name, cond, detail):
            nonlocal cases
            cases += 1
            if not cond and len(bad) < 6:
                bad.append([name, detail])
        for rule, mode in MODES:
            for q in range(4 * (lo - span), 4 * (hi + span) + 1):
                v = Fraction(q, 4) * pow2(-f)
                want = Q(v, s, n, f, rule, mode)
                fv = float(v)
                text = repr(fv) if fv != int(fv) else ('%d' % int(fv) if q % 8 else repr(fv))
                x = Fxp(text, s, n, f, rounding=rule, overflow=mode)
                chk('decimal_string', int(x.val) == want and float(x()) == float(Fraction(want) * pow2(-f)), [rule, mode, text, int(x.val), want])
                if q % 3 == 0:
                    w = Fraction(-q + 1, 4) * pow2(-f)
                    z = Fxp(complex(fv, float(w)), s, n, f, rounding=rule, overflow=mode)
                    zc = z.val.item() if hasattr(z.val, 'item') else z.val
                    chk('complex_components', int(zc.real) == want and int(zc.imag) == Q(w, s, n, f, rule, mode), [rule, mode, fv, float(w), zc])
                    y = Fxp(0.0, s, n, f, rounding=rule, overflow=mode); y(text)
                    chk('decimal_string_call', int(y.val) == want, [rule, mode, text])
                    a = Fxp([0.0, 0.0], s, n, f, rounding=rule, overflow=mode); a[1] = text
                    chk('decimal_string_setitem', int(a.val[1]) == want and int(a.val[0]) == 0, [rule, mode, text])
        return {'bad': bad, 'cases': cases}

    def post(self, cfg, inp, obs):
        if obs['exc']:
            return {}
        failed = {b[0] for b in obs['bad']}
        out = {k: (k not in failed) for k in ('decimal_string', 'complex_components', 'decimal_string_call', 'decimal_string_setitem')}
        out['details'] = len(obs['bad']) == 0
        return out


# ==========================================================================================================
@contract
class StateFactory(Contract):
    """Self-validation: the 'arbitrary well-formed pre-state' used by body verification (common.make_fxp, built
    WITHOUT running __init__) is attribute-for-attribute what the real constructor produces for the same format
    and code (bounded: enumerated formats and codes, native run)."""
    name = 'selfcheck:state-factory agreement'
    layer = 0
    native_only = True
    props = {'*': ['C02']}

    def configs(self, tier):
        for (s, n, f) in core_formats('quick')[::3] + [(True, 64, 0), (False, 64, 32), (True, 128, 64)]:
            yield dict(signed=s, n_word=n, n_frac=f)

    def run(self, cfg, P, inp):
        from fxpv.harness import canon
        s, n, f = cfg['signed'], cfg['n_word'], cfg['n_frac']
        lo, hi = range_of(s, n)
        bad = []; cases = 0
        for shape, codes in (((), [hi]), ((), [lo]), ((2,), [0, min(hi, 1)]), ((2, 2), [lo, hi, 0, lo])):
            real = P.Fxp(codes[0] if shape == () else P.arr(codes, dtype=store_dtype(s, n), shape=shape), s, n, f, raw=True)
            fake = make_fxp(P, s, n, f, codes=codes, shape=shape, vdtype=real.vdtype)
            cases += 1
            # config is compared separately; the status record is a free (symbolic) part of every pre-state
            a = canon({k: v for k, v in real.__dict__.items() if k not in ('config', 'status')}, None)
            b = canon({k: v for k, v in fake.__dict__.items() if k not in ('config', 'status')}, None)
            if a != b or real.config.__dict__ != fake.config.__dict__ or set(real.__dict__) != set(fake.__dict__):
                diff = [k for k in a if a.get(k) != b.get(k)]
                bad.append([list(shape), diff, str({k: (a.get(k), b.get(k)) for k in diff})[:300]])
        return {'bad': bad, 'cases': cases}

    def post(self, cfg, inp, obs):
        if obs['exc']:
            return {}
        return {'factory_matches_constructor': len(obs['bad']) == 0, 'details': len(obs['bad']) == 0}
