"""Shared specification vocabulary (DESIGN.md section 3).

One text, three uses: every function here works on *mathematical* values that are either z3-backed
(MTerm / MBool, when proving) or exact Python numbers (int / Fraction / bool, when replaying a
counterexample or running the bounded stand-in).  No Python `if` on a value that may be symbolic:
use ite / And / Or / Not / Implies.
"""
from fractions import Fraction
import z3
from fxpv import core
from fxpv.core import MTerm, MBool, SNum, SBool, mterm


# ---- lifting -------------------------------------------------------------------------------------
def M(x):
    """Mathematical value of a Python / NumPy / proxy number."""
    if isinstance(x, (MTerm, MBool)):
        return x
    if isinstance(x, SNum):
        return MTerm(x.t)
    if isinstance(x, SBool):
        return MBool(x.t)
    if isinstance(x, bool):
        return x
    if isinstance(x, int):
        return x
    if isinstance(x, float):
        return Fraction(x)
    if isinstance(x, Fraction):
        return x if x.denominator != 1 else int(x)
    try:
        import numpy as np
        if isinstance(x, np.bool_):
            return bool(x)
        if isinstance(x, np.integer):
            return int(x)
        if isinstance(x, np.floating):
            return Fraction(float(x))
    except ImportError:
        pass
    from fxpv.arr import SBase
    if isinstance(x, SBase) and x.size == 1:
        return M(x.elems[0])
    raise TypeError('M(%r)' % (type(x),))


def is_symbolic(x):
    return isinstance(x, (MTerm, MBool))


def B(x):
    """Mathematical boolean of a bool / SBool / MBool."""
    if isinstance(x, MBool):
        return x
    if isinstance(x, SBool):
        return MBool(x.t)
    try:
        import numpy as np
        if isinstance(x, np.bool_):
            return bool(x)
    except ImportError:
        pass
    if isinstance(x, bool):
        return x
    raise TypeError('B(%r)' % (type(x),))


# ---- logic ---------------------------------------------------------------------------------------
def _zb(x):
    return core.as_z3bool(x)

def And(*xs):
    xs = [B(x) for x in xs]
    if any(isinstance(x, MBool) for x in xs):
        return MBool(z3.And(*[_zb(x) for x in xs]))
    return all(xs)

def Or(*xs):
    xs = [B(x) for x in xs]
    if any(isinstance(x, MBool) for x in xs):
        return MBool(z3.Or(*[_zb(x) for x in xs]))
    return any(xs)

def Not(x):
    x = B(x)
    if isinstance(x, MBool):
        return MBool(z3.Not(x.t))
    return not x

def Implies(a, b):
    a, b = B(a), B(b)
    if isinstance(a, MBool) or isinstance(b, MBool):
        return MBool(z3.Implies(_zb(a), _zb(b)))
    return (not a) or b

def Iff(a, b):
    a, b = B(a), B(b)
    if isinstance(a, MBool) or isinstance(b, MBool):
        return MBool(_zb(a) == _zb(b))
    return a == b

def ite(c, a, b):
    c = B(c)
    if not isinstance(c, MBool):
        return a if c else b
    if isinstance(a, (bool, MBool)) and isinstance(b, (bool, MBool)):
        return MBool(z3.If(c.t, _zb(a), _zb(b)))
    ta, tb = mterm(a).t if not isinstance(a, Fraction) else core.zreal(a), mterm(b).t if not isinstance(b, Fraction) else core.zreal(b)
    if z3.is_int(ta) != z3.is_int(tb):
        ta = z3.ToReal(ta) if z3.is_int(ta) else ta
        tb = z3.ToReal(tb) if z3.is_int(tb) else tb
    return MTerm(z3.If(c.t, ta, tb))

def eq(a, b):
    if isinstance(a, (MTerm,)) or isinstance(b, (MTerm,)):
        return mterm(a) == b if isinstance(a, MTerm) else mterm(b) == a
    return a == b


# ---- arithmetic ----------------------------------------------------------------------------------
def floor(x):
    if isinstance(x, MTerm):
        if z3.is_int(x.t):
            return x
        return MTerm(core.CTX.floor(x.t))
    if isinstance(x, int):
        return x
    x = Fraction(x)
    return x.numerator // x.denominator

def ceil(x):
    return -floor(-x)

def mod(a, m):
    """a mod m, m a concrete positive int, a an integer value."""
    if isinstance(a, MTerm):
        if not z3.is_int(a.t):
            raise core.CheckerError('mod of a real term')
        return MTerm(core.CTX.mod(a.t, m))
    return int(a) % m

def is_int(x):
    if isinstance(x, MTerm):
        if z3.is_int(x.t):
            return True
        k = core.CTX.floor(x.t)
        return MBool(z3.ToReal(k) == x.t)
    return Fraction(x).denominator == 1

def abs_(x):
    if isinstance(x, MTerm):
        return abs(x)
    return abs(x)

def pow2(k):
    return core.pow2(k)

def scale2(x, k):
    """x * 2**k exactly (k concrete int)."""
    return x * pow2(k)


# ---- the fixed-point vocabulary --------------------------------------------------------------------
def range_of(signed, n_word):
    if signed:
        return -(1 << (n_word - 1)), (1 << (n_word - 1)) - 1
    return 0, (1 << n_word) - 1

def in_range(c, signed, n_word):
    lo, hi = range_of(signed, n_word)
    return And(c >= lo, c <= hi)

ROUNDINGS = ('trunc', 'around', 'floor', 'ceil', 'fix')
OVERFLOWS = ('saturate', 'wrap')

def ROUND(r, rule):
    """Rounding of the exact real r to an integer under `rule`."""
    if rule == 'floor':
        return floor(r)
    if rule == 'ceil':
        return ceil(r)
    if rule in ('trunc', 'fix'):
        return ite(r >= 0, floor(r), ceil(r))
    if rule == 'around':
        # nearest, ties to even
        k = floor(r + Fraction(1, 2))
        tie = eq(k, r + Fraction(1, 2))
        odd = eq(mod(k, 2), 1)
        return ite(And(tie, odd), k - 1, k)
    raise ValueError(rule)

def OVF(c, signed, n_word, mode):
    lo, hi = range_of(signed, n_word)
    if mode == 'saturate':
        return ite(c > hi, hi, ite(c < lo, lo, c))
    if mode == 'wrap':
        return mod(c - lo, 1 << n_word) + lo
    raise ValueError(mode)

def Q(v, signed, n_word, n_frac, rule, mode):
    """The reference quantizer: OVERFLOW(ROUND(v * 2^n_frac))."""
    return OVF(ROUND(scale2(v, n_frac), rule), signed, n_word, mode)

def value(code, n_frac):
    return scale2(code, -n_frac)

def pat(c, n_word):
    """n_word-bit two's complement image of the integer c."""
    return mod(c, 1 << n_word)


def bitop(op, a, b):
    """bitwise and/or/xor of two non-negative integers (n-bit patterns)"""
    if isinstance(a, MTerm) or isinstance(b, MTerm):
        r = core._int_bitop(op, core.SNum(mterm(a).t) if isinstance(a, MTerm) else a, core.SNum(mterm(b).t) if isinstance(b, MTerm) else b)
        return mterm(r)
    a, b = int(a), int(b)
    return {'and': a & b, 'or': a | b, 'xor': a ^ b}[op]


def from_pat(p, signed, n_word):
    """the code whose n_word-bit two's complement image is p"""
    if not signed:
        return p
    return ite(p >= (1 << (n_word - 1)), p - (1 << n_word), p)
