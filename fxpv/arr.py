"""fxpv.arr -- SArr / SGen: ndarray and NumPy-scalar proxies of concrete shape whose elements are
concrete Python values or symbolic SNum/SBool.  Implements the *assumed contracts* of NumPy's
elementwise semantics (NEP 50 promotion, int64/uint64 wrap-around, casting, 0-d unwrapping).

Storage model: `store` is a flat Python list (the buffer, identity matters for C20) and `idx` is
a real numpy integer array of positions into it, so views/reshape/transposition/indexing reuse
NumPy's own index arithmetic.
"""
import numpy as _np
import z3
from fractions import Fraction
from . import core
from .core import (SNum, SBool, Undecided, CheckerError, mkbool, band, bor, bnot, zint, zreal,
                   zterm, kind_of, to_float, py_binop, log2_exact)

INT_KINDS = 'iu'

def _dt(x):
    return _np.dtype(x)

F64 = _dt('float64'); I64 = _dt('int64'); U64 = _dt('uint64'); BOOL = _dt('bool'); OBJ = _dt('O')


def int_range(dt):
    info = _np.iinfo(dt)
    return int(info.min), int(info.max)


# ----------------------------------------------------------------------------------------
# element-level casting
# ----------------------------------------------------------------------------------------
def wrap_int(v, dt, what='int-op'):
    """Reduce a mathematical integer into integer dtype dt (two's complement wrap-around).
    When in-range is provable under the path condition the term stays un-wrapped."""
    lo, hi = int_range(dt)
    if isinstance(v, (bool, int)):
        v = int(v)
        if lo <= v <= hi:
            return v
        return (v - lo) % (hi - lo + 1) + lo
    if isinstance(v, SBool):
        v = SNum(zint(v))
    t = v.t
    rng = z3.And(t >= lo, t <= hi)
    core.CTX.assumed_used.add('numpy: %s arithmetic wraps modulo 2^%d' % (dt.name, dt.itemsize * 8))
    if core.CTX.valid(rng):
        return v
    core.CTX.notes.append('possible %s wrap-around at %s' % (dt.name, what))
    m = hi - lo + 1
    return SNum(z3.simplify(core.CTX.mod(z3.simplify(t - lo), m) + lo))


def trunc_term(x):
    """Int term: x truncated toward zero (x Python-level float)."""
    if isinstance(x, float):
        return int(x)
    if x.dy is not None and x.dy[1] <= 0:
        return SNum(z3.simplify(x.dy[0] * (1 << -x.dy[1])))
    r = x.t
    fl = core.CTX.floor(r)
    ce = z3.simplify(-core.CTX.floor(z3.simplify(-r)))
    return SNum(z3.simplify(z3.If(r >= 0, fl, ce)))


def cast_elem(v, src, dst, what='cast'):
    """numpy astype semantics for one element."""
    if src == dst:
        return v
    dk = dst.kind
    sk = src.kind
    if dk == 'O':
        # to Python object
        if sk in INT_KINDS or sk == 'f' or sk == 'b':
            return v
        return v
    if sk == 'O':
        # Python object -> numeric
        if isinstance(v, (SNum, SBool, bool, int, float)):
            k = kind_of(v)
            if dk in INT_KINDS:
                if k == 'num':
                    iv = trunc_term(SNum(v.t, v.dy))
                elif k == 'float':
                    iv = trunc_term(v)
                else:
                    iv = v if not isinstance(v, SBool) else SNum(zint(v))
                lo, hi = int_range(dst)
                inr = band(iv >= lo, iv <= hi)
                if inr is not True:
                    if not bool(inr):
                        raise OverflowError('Python int too large to convert to C long')
                return iv
            if dk == 'f':
                if dst != F64:
                    raise Undecided('object -> %s' % dst)
                return to_float(v, what) if k == 'int' else (SNum(v.t, v.dy) if k == 'num' else v)
            if dk == 'b':
                return v != 0
        raise Undecided('object element %r -> %s' % (type(v), dst))
    if dk == 'b':
        return v != 0 if not isinstance(v, (bool, SBool)) else v
    if dk in INT_KINDS:
        if sk == 'b':
            return int(v) if isinstance(v, bool) else SNum(zint(v))
        if sk in INT_KINDS:
            return wrap_int(v, dst, what)
        if sk == 'f':
            iv = trunc_term(v)
            if isinstance(iv, int):
                lo, hi = int_range(dst)
                if not (lo <= iv <= hi):
                    raise Undecided('float->int cast out of range (undefined behaviour in C)')
                return iv
            lo, hi = int_range(dst)
            ok = core.CTX.valid(z3.And(iv.t >= lo, iv.t <= hi))
            if not ok:
                raise Undecided('float->int cast possibly out of range (undefined behaviour in C)')
            return iv
    if dk == 'f':
        if sk == 'b':
            return float(v) if isinstance(v, bool) else to_float(SNum(zint(v)), what)
        if sk in INT_KINDS:
            if dst != F64:
                if isinstance(v, int):
                    return float(_np.array(v).astype(dst))
                raise Undecided('int -> %s' % dst)
            return to_float(v, what)
        if sk == 'f':
            if dst.itemsize >= src.itemsize:
                return v
            if isinstance(v, float):
                return float(_np.array(v, dtype=src).astype(dst))
            raise Undecided('float narrowing cast of a symbolic value')
    if dk == 'c':
        raise Undecided('complex dtype')
    raise Undecided('cast %s -> %s' % (src, dst))


def py_of_elem(v, dt):
    """.item() / tolist(): the Python object for an element of dtype dt."""
    return v


def elem_from_py(v):
    """dtype + stored element for a Python-level scalar given to np.array()."""
    if isinstance(v, (bool, SBool)):
        return BOOL, v
    if isinstance(v, int):
        if -2**63 <= v < 2**63:
            return I64, v
        if v < 2**64 and v > 0:
            return U64, v
        return OBJ, v
    if isinstance(v, float):
        return F64, v
    if isinstance(v, SNum):
        k = kind_of(v)
        if k == 'float':
            return F64, v
        if k == 'num':
            if bool(SBool(v.kc)):
                return elem_from_py(SNum(trunc_term(SNum(v.t, v.dy)).t))
            return F64, SNum(v.t, v.dy)
        # Python int: int64 / uint64 / object by magnitude
        core.CTX.assumed_used.add('numpy: np.array(python int) is int64 / uint64 in [2^63,2^64) / object beyond')
        if bool(band(v >= -2**63, v < 2**63)):
            return I64, v
        if bool(band(v >= 2**63, v < 2**64)):
            return U64, v
        return OBJ, v
    if isinstance(v, str):
        return _np.dtype('U%d' % max(len(v), 1)), v
    if isinstance(v, complex):
        raise Undecided('complex value')
    if v is None:
        return OBJ, v
    return OBJ, v


# ----------------------------------------------------------------------------------------
# the proxies
# ----------------------------------------------------------------------------------------
class SBase:
    """Common behaviour of ndarray proxies (SArr) and NumPy-scalar proxies (SGen)."""
    is_scalar = False
    __array_priority__ = 1000
    __hash__ = None

    def __init__(self, store, idx, dtype):
        self.store = store
        self.idx = idx
        self.dtype = _dt(dtype)

    # ---- basic attributes -------------------------------------------------------------
    @property
    def shape(self): return self.idx.shape
    @property
    def ndim(self): return self.idx.ndim
    @property
    def size(self): return int(self.idx.size)
    @property
    def elems(self):
        st = self.store
        return [st[i] for i in self.idx.ravel().tolist()]
    @property
    def T(self):
        return SArr(self.store, self.idx.T, self.dtype)
    @property
    def real(self):
        if self.dtype.kind == 'O':
            raise Undecided('.real of object array')
        return self
    @property
    def imag(self):
        if self.dtype.kind == 'O':
            raise Undecided('.imag of object array')
        z = 0.0 if self.dtype.kind == 'f' else (False if self.dtype.kind == 'b' else 0)
        return new_like(self.shape, [z] * self.size, self.dtype, scalar=self.is_scalar)
    @property
    def flat(self):
        raise Undecided('.flat')
    @property
    def symbolic(self):
        return any(isinstance(e, (SNum, SBool)) or type(e).__name__ == 'Log2Of' for e in self.elems)

    def __len__(self):
        if self.ndim == 0:
            raise TypeError('len() of unsized object')
        return self.shape[0]

    def __iter__(self):
        if self.ndim == 0:
            raise TypeError('iteration over a 0-d array')
        for i in range(self.shape[0]):
            yield self[i]

    def __deepcopy__(self, memo):
        return self.copy()
    def __copy__(self):
        return self.copy()
    def copy(self, order='C'):
        return new_like(self.shape, list(self.elems), self.dtype, scalar=self.is_scalar)

    def __repr__(self):
        return '%s(%s, shape=%s, %s)' % (type(self).__name__, self.dtype, self.shape, self.elems)
    def __format__(self, spec):
        return '<array proxy>'

    # ---- scalar conversions (only for concrete one-element arrays) ----------------------
    def _one(self, what):
        if self.size != 1:
            raise TypeError('only length-1 arrays can be converted to Python scalars')
        v = self.elems[0]
        if isinstance(v, (SNum, SBool)):
            raise Undecided('%s of a symbolic array element outside the shim' % what)
        return v
    def __int__(self): return int(self._one('int()'))
    def __float__(self): return float(self._one('float()'))
    def __index__(self):
        if self.dtype.kind not in INT_KINDS:
            raise TypeError('only integer scalar arrays can be converted to a scalar index')
        return int(self._one('index'))
    def __bool__(self):
        if self.size != 1:
            raise ValueError('The truth value of an array with more than one element is ambiguous. Use a.any() or a.all()')
        v = self.elems[0]
        if isinstance(v, SBool):
            return bool(v)
        if isinstance(v, SNum):
            return bool(v != 0)
        return bool(v)

    # ---- shape manipulation ------------------------------------------------------------
    def reshape(self, *shape, **kw):
        if 'shape' in kw:
            shape = (kw.pop('shape'),)
        order = kw.pop('order', 'C')
        if kw:
            raise Undecided('reshape kwargs %s' % list(kw))
        if len(shape) == 1:
            shape = shape[0]
        new = self.idx.reshape(shape, order=order)
        if _np.shares_memory(new, self.idx) or True:
            # numpy returns a view whenever possible; for our flat-store model reshape of a
            # contiguous array is always a view.  Non-contiguous inputs copy.
            if self.idx.flags['C_CONTIGUOUS'] or self.idx.flags['F_CONTIGUOUS']:
                return SArr(self.store, new, self.dtype)
        return new_like(new.shape, [self.store[i] for i in new.ravel().tolist()], self.dtype)
    def flatten(self, order='C'):
        ii = self.idx.flatten(order)
        return new_like(ii.shape, [self.store[i] for i in ii.tolist()], self.dtype)
    def ravel(self, order='C'):
        if self.idx.flags['C_CONTIGUOUS'] and order == 'C':
            return SArr(self.store, self.idx.ravel(), self.dtype)
        return self.flatten(order)
    def transpose(self, *axes):
        return SArr(self.store, self.idx.transpose(*axes), self.dtype)
    def diagonal(self, offset=0, axis1=0, axis2=1):
        return SArr(self.store, self.idx.diagonal(offset, axis1, axis2), self.dtype)
    def squeeze(self, axis=None):
        return SArr(self.store, self.idx.squeeze(axis), self.dtype)

    def tolist(self):
        def rec(ix):
            if ix.ndim == 0:
                return self.store[int(ix)]
            return [rec(s) for s in ix]
        return rec(self.idx)

    def item(self, *args):
        if not args:
            if self.size != 1:
                raise ValueError('can only convert an array of size 1 to a Python scalar')
            return self.elems[0]
        a = args[0] if len(args) == 1 else tuple(args)
        if isinstance(a, tuple):
            return self.store[int(self.idx[a])]
        return self.store[int(self.idx.ravel()[a])]

    def astype(self, dtype, **kw):
        if kw:
            raise Undecided('astype kwargs')
        dst = norm_dtype(dtype)
        src = self.dtype
        core.CTX.assumed_used.add('numpy: astype %s->%s' % (src.name, dst.name))
        el = [cast_elem(e, src, dst, 'astype(%s)' % dst.name) for e in self.elems]
        if self.is_scalar and dst.kind == 'O':
            return el[0]          # numpy scalar .astype(object) is the python object itself
        r = new_like(self.shape, el, dst, scalar=self.is_scalar)
        if _is_forder(self):
            core.CTX.assumed_used.add('numpy: astype keeps the column-major layout (order=K)')
            return _to_forder(r)
        return r

    # ---- indexing ----------------------------------------------------------------------
    def _check_index(self, index):
        def bad(i):
            return isinstance(i, (SNum, SBool, SBase))
        items = index if isinstance(index, tuple) else (index,)
        for i in items:
            if bad(i):
                raise Undecided('symbolic / array-proxy index')
    def __getitem__(self, index):
        self._check_index(index)
        sub = self.idx[index]
        if isinstance(sub, _np.ndarray):
            basic = _np.shares_memory(sub, self.idx) or sub.size == 0 or self.ndim == 0
            if basic:
                return SArr(self.store, sub, self.dtype)
            return new_like(sub.shape, [self.store[i] for i in sub.ravel().tolist()], self.dtype)
        # a single element: numpy scalar (or the object itself)
        v = self.store[int(sub)]
        if self.dtype.kind == 'O':
            return v
        return SGen([v], _np.zeros((), dtype=int), self.dtype)

    # ---- reductions --------------------------------------------------------------------
    def _reduce(self, f, axis=None, empty_err=True, **kw):
        kw.pop('out', None)
        if any(v is not None for v in kw.values()):
            raise Undecided('reduction kwargs %s' % kw)
        if axis is None:
            el = self.elems
            if not el:
                raise ValueError('zero-size array to reduction operation which has no identity')
            return f(el)
        moved = _np.moveaxis(self.idx, axis, -1)
        out_shape = moved.shape[:-1]
        flat = moved.reshape(-1, moved.shape[-1]) if moved.ndim > 1 else moved.reshape(1, -1)
        res = [f([self.store[i] for i in row.tolist()]) for row in flat]
        return out_shape, res

    def any(self, axis=None, **kw):
        return reduce_any(self, axis)
    def all(self, axis=None, **kw):
        return reduce_all(self, axis)
    def max(self, axis=None, **kw):
        return reduce_minmax(self, axis, True)
    def min(self, axis=None, **kw):
        return reduce_minmax(self, axis, False)
    def sum(self, axis=None, **kw):
        return reduce_sum(self, axis, **kw)

    # ---- operators ---------------------------------------------------------------------
    def __neg__(self): return unary('negative', self)
    def __pos__(self): return unary('positive', self)
    def __abs__(self): return unary('absolute', self)
    def __invert__(self): return unary('invert', self)
    def __add__(self, o): return binary('add', self, o)
    def __radd__(self, o): return binary('add', o, self)
    def __sub__(self, o): return binary('subtract', self, o)
    def __rsub__(self, o): return binary('subtract', o, self)
    def __mul__(self, o): return binary('multiply', self, o)
    def __rmul__(self, o): return binary('multiply', o, self)
    def __truediv__(self, o): return binary('true_divide', self, o)
    def __rtruediv__(self, o): return binary('true_divide', o, self)
    def __floordiv__(self, o): return binary('floor_divide', self, o)
    def __rfloordiv__(self, o): return binary('floor_divide', o, self)
    def __mod__(self, o): return binary('remainder', self, o)
    def __rmod__(self, o): return binary('remainder', o, self)
    def __pow__(self, o): return binary('power', self, o)
    def __rpow__(self, o): return binary('power', o, self)
    def __lshift__(self, o): return binary('left_shift', self, o)
    def __rlshift__(self, o): return binary('left_shift', o, self)
    def __rshift__(self, o): return binary('right_shift', self, o)
    def __rrshift__(self, o): return binary('right_shift', o, self)
    def __and__(self, o): return binary('bitwise_and', self, o)
    def __rand__(self, o): return binary('bitwise_and', o, self)
    def __or__(self, o): return binary('bitwise_or', self, o)
    def __ror__(self, o): return binary('bitwise_or', o, self)
    def __xor__(self, o): return binary('bitwise_xor', self, o)
    def __rxor__(self, o): return binary('bitwise_xor', o, self)
    def __lt__(self, o): return binary('less', self, o)
    def __le__(self, o): return binary('less_equal', self, o)
    def __gt__(self, o): return binary('greater', self, o)
    def __ge__(self, o): return binary('greater_equal', self, o)
    def __eq__(self, o): return binary('equal', self, o)
    def __ne__(self, o): return binary('not_equal', self, o)


class SArr(SBase):
    """numpy.ndarray proxy."""
    def __setitem__(self, index, value):
        self._check_index(index)
        sub = self.idx[index]
        tgt = _np.asarray(sub)
        if isinstance(value, SBase):
            src_idx = _np.broadcast_to(_np.arange(value.size).reshape(value.shape), tgt.shape) if value.size != tgt.size or value.shape != tgt.shape else _np.arange(value.size).reshape(value.shape)
            vals = value.elems
            sdt = value.dtype
            flat_src = [vals[i] for i in _np.asarray(src_idx).ravel().tolist()]
        elif isinstance(value, (list, tuple)):
            arr = array(value)
            return self.__setitem__(index, arr)
        else:
            sdt, ev = elem_from_py(value)
            flat_src = [ev] * tgt.size
        for pos, v in zip(tgt.ravel().tolist(), flat_src):
            self.store[pos] = cast_elem(v, sdt, self.dtype, 'setitem') if self.dtype.kind != 'O' else v

    def sort(self, axis=-1, **kw):
        if any(v is not None for v in kw.values()):
            raise Undecided('sort kwargs')
        if self.symbolic:
            core.CTX.assumed_used.add('numpy: sort orders elements (compare-exchange network semantics)')
            moved = _np.moveaxis(self.idx, axis, -1)
            rows = moved.reshape(-1, moved.shape[-1]) if moved.ndim > 0 else moved.reshape(1, 1)
            for row in rows:
                pos = row.tolist()
                n = len(pos)
                for i in range(n):
                    for j in range(n - 1 - i):
                        p, q = pos[j], pos[j + 1]
                        u, v = self.store[p], self.store[q]
                        c = (v < u)
                        self.store[p] = _ite_num(c, v, u)
                        self.store[q] = _ite_num(c, u, v)
            return
        real = _np.array(self.elems, dtype=self.dtype).reshape(self.shape)
        real.sort(axis=axis)
        for pos, v in zip(self.idx.ravel().tolist(), real.ravel().tolist()):
            self.store[pos] = v


class SGen(SBase):
    """numpy.generic (NumPy scalar) proxy: immutable, shape ()."""
    is_scalar = True
    def __setitem__(self, index, value):
        raise TypeError("'numpy scalar' object does not support item assignment")
    @property
    def value(self):
        return self.store[int(self.idx)]


def new_like(shape, elems, dtype, scalar=False):
    n = len(elems)
    dtype = _dt(dtype)
    if dtype.kind in INT_KINDS:
        for e in elems:
            if (isinstance(e, SNum) and not e.isint) or isinstance(e, float):
                raise CheckerError('engine invariant: non-integer element %r in an array of dtype %s' % (e, dtype))
    elif dtype.kind == 'f':
        for e in elems:
            if isinstance(e, SNum) and e.isint:
                raise CheckerError('engine invariant: Int-sorted element in a float array')
    idx = _np.arange(n).reshape(shape)
    if scalar and idx.ndim == 0:
        return SGen(list(elems), idx, dtype)
    return SArr(list(elems), idx, dtype)


def norm_dtype(dtype):
    """Accept real numpy dtypes / python types / strings."""
    if dtype is None:
        return F64
    if dtype is int:
        return I64
    if dtype is float:
        return F64
    if dtype is bool:
        return BOOL
    if dtype is object:
        return OBJ
    if dtype is complex:
        raise Undecided('complex dtype')
    if dtype is str:
        return _np.dtype('U')
    d = _np.dtype(dtype)
    if d.kind == 'c':
        raise Undecided('complex dtype')
    if d.kind == 'f' and d.itemsize > 8:
        raise Undecided('long double')
    return d


# ----------------------------------------------------------------------------------------
# array construction (np.array / np.asarray)
# ----------------------------------------------------------------------------------------
def array(obj, dtype=None, copy=True, ndmin=0):
    core.CTX.assumed_used.add('numpy: np.array dtype inference / promotion (NumPy %s)' % _np.__version__)
    if isinstance(obj, SBase):
        if dtype is None or norm_dtype(dtype) == obj.dtype:
            if isinstance(obj, SGen):
                return new_like((), obj.elems, obj.dtype)
            return obj.copy() if copy else obj
        r = obj.astype(dtype)
        if isinstance(r, SGen):
            return new_like((), r.elems, r.dtype)
        return r
    if isinstance(obj, _np.ndarray):
        a = from_real(obj)
        return a if dtype is None else a.astype(dtype)
    if isinstance(obj, _np.generic):
        a = from_real(_np.asarray(obj))
        return a if dtype is None else a.astype(dtype)
    if not isinstance(obj, (list, tuple, SNum, SBool, str, int, float, bool, complex, type(None))) and hasattr(type(obj), '__array__'):
        core.CTX.assumed_used.add('numpy: np.array(obj) uses obj.__array__()')
        r = obj.__array__()
        return array(r, dtype=dtype, copy=copy)
    # nested lists / tuples / scalars
    shape, leaves = _nest(obj)
    if shape is None:
        # ragged or contains arrays: fall back
        raise Undecided('np.array of ragged / mixed nested input')
    infos = [_leaf_info(v) for v in leaves]
    if dtype is not None:
        dst = norm_dtype(dtype)
    else:
        dst = _infer_dtype([d for d, _ in infos], leaves)
    el = []
    for (d, v) in infos:
        el.append(cast_elem(v, d, dst, 'np.array') if dst.kind != 'O' else v)
    return new_like(shape, el, dst)


def _leaf_info(v):
    if isinstance(v, SGen):
        return v.dtype, v.value
    if isinstance(v, SArr) and v.ndim == 0:
        return v.dtype, v.elems[0]
    if isinstance(v, _np.generic):
        return v.dtype, v.item()
    return elem_from_py(v)


def _infer_dtype(dts, leaves):
    if not dts:
        return F64
    # Python scalars in a list are *not* weak: np.array([1, 2.5]) -> float64, [2**63, 1] -> float64 (!) etc.
    uniq = []
    for d in dts:
        if d not in uniq:
            uniq.append(d)
    if any(d.kind == 'U' for d in uniq):
        if all(d.kind == 'U' for d in uniq):
            return _np.dtype('U%d' % max(max(len(str(v)) for v in leaves), 1))
        raise Undecided('np.array of mixed str / number')
    if any(d.kind == 'O' for d in uniq):
        return OBJ
    return _np.result_type(*uniq)


def _nest(obj):
    """(shape, flat leaves) of nested lists/tuples; shape None if ragged."""
    if isinstance(obj, (list, tuple)):
        if len(obj) == 0:
            return (0,), []
        subs = [_nest(o) for o in obj]
        s0 = subs[0][0]
        if any(s[0] != s0 for s in subs) or s0 is None:
            return None, None
        leaves = []
        for s in subs:
            leaves.extend(s[1])
        return (len(obj),) + s0, leaves
    if isinstance(obj, SArr) and obj.ndim > 0:
        return obj.shape, [SGen([e], _np.zeros((), dtype=int), obj.dtype) if obj.dtype.kind != 'O' else e for e in obj.elems]
    if isinstance(obj, _np.ndarray) and obj.ndim > 0:
        return _nest(from_real(obj))
    return (), [obj]


def from_real(a):
    """real numpy array / scalar -> proxy with concrete elements."""
    if isinstance(a, _np.generic):
        if a.dtype.kind == 'c':
            raise Undecided('complex value')
        return SGen([a.item()], _np.zeros((), dtype=int), a.dtype)
    if a.dtype.kind == 'c':
        raise Undecided('complex array')
    return new_like(a.shape, a.ravel().tolist() if a.dtype.kind != 'O' else list(a.ravel()), a.dtype)


def asarray(obj, dtype=None):
    if isinstance(obj, SArr) and (dtype is None or norm_dtype(dtype) == obj.dtype):
        return obj
    return array(obj, dtype=dtype, copy=False)


def is_arraylike(x):
    return isinstance(x, (SBase, _np.ndarray, _np.generic, list, tuple))


# ----------------------------------------------------------------------------------------
# ufunc machinery
# ----------------------------------------------------------------------------------------
_CMP = {'less': lambda a, b: a < b, 'less_equal': lambda a, b: a <= b, 'greater': lambda a, b: a > b,
        'greater_equal': lambda a, b: a >= b, 'equal': lambda a, b: a == b, 'not_equal': lambda a, b: a != b}
_ARITH = {'add': 'add', 'subtract': 'sub', 'multiply': 'mul'}
_PYOPS = {'add': lambda a, b: a + b, 'subtract': lambda a, b: a - b, 'multiply': lambda a, b: a * b,
          'true_divide': lambda a, b: a / b, 'floor_divide': lambda a, b: a // b,
          'remainder': lambda a, b: a % b, 'power': lambda a, b: a ** b,
          'left_shift': lambda a, b: a << b, 'right_shift': lambda a, b: a >> b,
          'bitwise_and': lambda a, b: a & b, 'bitwise_or': lambda a, b: a | b, 'bitwise_xor': lambda a, b: a ^ b}


def _classify(x):
    """-> ('arr', SBase) | ('py', value)"""
    if isinstance(x, SBase):
        return 'arr', x
    if isinstance(x, (_np.ndarray, _np.generic)):
        return 'arr', from_real(x)
    if isinstance(x, (list, tuple)):
        return 'arr', array(x)
    if isinstance(x, (SNum, SBool, bool, int, float)):
        return 'py', x
    if x is None:
        raise TypeError("unsupported operand type(s): 'NoneType'")
    if isinstance(x, complex):
        raise Undecided('complex operand')
    if isinstance(x, str):
        raise Undecided('string operand in array arithmetic')
    return 'other', x


def _weak_result_dtype(adt, py):
    """NEP 50: result dtype of array dtype `adt` with a Python scalar `py`."""
    k = kind_of(py) if not isinstance(py, (bool, SBool)) else 'bool'
    if k == 'num':
        raise Undecided('merged-kind python scalar in array arithmetic')
    if adt.kind == 'O':
        return OBJ
    if k == 'bool':
        return adt
    if k == 'int':
        if adt.kind == 'b':
            return I64
        return adt
    # float
    if adt.kind == 'f':
        return adt
    return F64


def _check_pyint_fits(py, dt):
    """NEP 50: a Python int operand must be representable in the integer dtype."""
    if dt.kind not in INT_KINDS:
        return
    if isinstance(py, (bool, SBool)):
        return
    lo, hi = int_range(dt)
    ok = band(py >= lo, py <= hi)
    if ok is True:
        return
    if not bool(ok):
        raise OverflowError('Python integer out of bounds for %s' % dt.name)


def _concrete_operand(k, v):
    if k == 'arr':
        return (not v.symbolic) and v.dtype.kind != 'O'
    return isinstance(v, (bool, int, float))


def _real_of(k, v):
    if k == 'py':
        return v
    if isinstance(v, SGen):
        return _np.array(v.elems[0], dtype=v.dtype)[()]
    return _np.array(v.elems, dtype=v.dtype).reshape(v.shape)


def binary(op, a, b):
    r = _binary(op, a, b)
    arrs = [x for x in (a, b) if isinstance(x, SArr) and x.ndim >= 2]
    if arrs and isinstance(r, SArr) and r.ndim >= 2 and all(_is_forder(x) for x in arrs) and all(tuple(x.shape) == tuple(r.shape) for x in arrs):
        core.CTX.assumed_used.add('numpy: elementwise results keep the column-major layout of their operands (order=K)')
        return _to_forder(r)
    return r


def _binary(op, a, b):
    ka, va = _classify(a)
    kb, vb = _classify(b)
    if ka == 'other' or kb == 'other':
        return NotImplemented
    if _concrete_operand(ka, va) and _concrete_operand(kb, vb):
        # configuration-only arithmetic: NumPy's own semantics
        import warnings
        with warnings.catch_warnings():
            warnings.simplefilter('ignore')
            r = getattr(_np, op)(_real_of(ka, va), _real_of(kb, vb))
        if isinstance(r, _np.ndarray) and r.dtype.kind == 'c':
            raise Undecided('complex result')
        return from_real(r) if isinstance(r, (_np.ndarray, _np.generic)) else r
    core.CTX.assumed_used.add('numpy: elementwise %s with NEP 50 promotion' % op)
    # ---- result / computation dtype ------------------------------------------------------
    if ka == 'arr' and kb == 'arr':
        adt, bdt = va.dtype, vb.dtype
        if adt.kind == 'O' or bdt.kind == 'O':
            cdt = OBJ
        else:
            cdt = _np.result_type(adt, bdt)
        ea, eb = va.elems, vb.elems
        ia = _np.arange(va.size).reshape(va.shape)
        ib = _np.arange(vb.size).reshape(vb.shape)
        try:
            ba, bb = _np.broadcast_arrays(ia, ib)
        except ValueError:
            raise ValueError('operands could not be broadcast together with shapes %s %s' % (va.shape, vb.shape))
        shape = ba.shape
        pa = [ea[i] for i in ba.ravel().tolist()]
        pb = [eb[i] for i in bb.ravel().tolist()]
        sa, sb = adt, bdt
        scalar_out = va.is_scalar and vb.is_scalar or (va.ndim == 0 and vb.ndim == 0)
    elif ka == 'arr':
        adt = va.dtype
        cdt = _weak_result_dtype(adt, vb)
        if (op in _CMP or op == 'true_divide') and adt.kind != 'O':
            pass
        elif cdt.kind in INT_KINDS and kind_of(vb) == 'int':
            _check_pyint_fits(vb, cdt)
        shape = va.shape
        pa = va.elems
        pb = [vb] * len(pa)
        sa, sb = adt, None
        scalar_out = va.ndim == 0
    else:
        bdt = vb.dtype
        cdt = _weak_result_dtype(bdt, va)
        if (op in _CMP or op == 'true_divide') and bdt.kind != 'O':
            pass
        elif cdt.kind in INT_KINDS and kind_of(va) == 'int':
            _check_pyint_fits(va, cdt)
        shape = vb.shape
        pb = vb.elems
        pa = [va] * len(pb)
        sa, sb = None, bdt
        scalar_out = vb.ndim == 0

    # ---- comparisons: exact mathematical comparison -----------------------------------------
    if op in _CMP:
        f = _CMP[op]
        if cdt.kind == 'O':
            res = [f(x, y) for x, y in zip(pa, pb)]
            return _finish(shape, res, OBJ if False else BOOL, scalar_out)
        if sa is not None and sb is not None and cdt.kind == 'f' and (sa.kind in INT_KINDS or sb.kind in INT_KINDS) and (sa.kind != sb.kind):
            # int64 vs uint64 / int vs float arrays compare after promotion to float64
            pa = [cast_elem(x, sa, cdt, 'cmp') for x in pa]
            pb = [cast_elem(y, sb, cdt, 'cmp') for y in pb]
        res = [_cmp_elem(f, x, y) for x, y in zip(pa, pb)]
        return _finish(shape, res, BOOL, scalar_out)

    # ---- object dtype: Python semantics per element -----------------------------------------
    if cdt.kind == 'O':
        f = _PYOPS[op]
        res = [f(x, y) for x, y in zip(pa, pb)]
        return _finish(shape, res, OBJ, scalar_out)

    # ---- numeric ----------------------------------------------------------------------------
    if op == 'true_divide':
        if cdt.kind in INT_KINDS or cdt.kind == 'b':
            cdt = F64
        rdt = cdt
    elif op in ('left_shift', 'right_shift', 'bitwise_and', 'bitwise_or', 'bitwise_xor'):
        if cdt.kind == 'f':
            raise TypeError("ufunc '%s' not supported for the input types" % op)
        rdt = cdt
    elif op == 'power':
        raise Undecided('np.power on numeric proxies')
    else:
        rdt = cdt
        if cdt.kind == 'b':
            if op in ('add', 'multiply'):
                raise Undecided('boolean add/multiply')
            raise TypeError('numpy boolean subtract is not supported')
    if rdt != F64 and rdt.kind == 'f':
        # half / single precision: only operations that are exact in EVERY binary floating-point format are modelled --
        # the remainder by a concrete power of two (the fractional part needs no extra bits, no rounding, no overflow)
        pow2_div = kb == 'py' and isinstance(vb, (int, float)) and not isinstance(vb, bool) and vb > 0 and float(vb) == vb \
            and Fraction(vb).numerator in (1,) or (kb == 'py' and isinstance(vb, int) and not isinstance(vb, bool) and vb > 0 and (vb & (vb - 1)) == 0)
        if not (op == 'remainder' and pow2_div):
            raise Undecided('arithmetic in %s' % rdt)
        core.CTX.assumed_used.add('numpy: x %% 2^k is exact in float16 / float32 (fractional part of a binary float)')

    def conv(x, sdt):
        if sdt is None:
            # weak Python scalar -> computation dtype
            if cdt.kind == 'f':
                return to_float(x) if kind_of(x) == 'int' else x
            return x if not isinstance(x, SBool) else SNum(zint(x))
        return cast_elem(x, sdt, cdt, op)

    res = []
    for x, y in zip(pa, pb):
        x = conv(x, sa); y = conv(y, sb)
        res.append(_num_elem(op, x, y, cdt))
    return _finish(shape, res, rdt, scalar_out)


def _cmp_elem(f, x, y):
    if isinstance(x, str) or isinstance(y, str):
        raise Undecided('string comparison in arrays')
    return f(x, y)


def _num_elem(op, x, y, cdt):
    """One element of a numeric ufunc, operands already in computation dtype cdt."""
    if cdt.kind in INT_KINDS:
        if op in ('add', 'subtract', 'multiply'):
            r = _PYOPS[op](x, y)
            return wrap_int(r, cdt, op)
        if op in ('floor_divide', 'remainder'):
            z = (y == 0)
            if z is True or (z is not False and bool(z)):
                core.CTX.notes.append('integer division by zero in numpy (result 0)')
                return 0
            r = _PYOPS[op](x, y)
            return wrap_int(r, cdt, op)
        if op == 'left_shift':
            if not isinstance(y, int):
                raise Undecided('symbolic shift count')
            if y < 0 or y >= cdt.itemsize * 8:
                raise Undecided('shift count out of range (undefined in C)')
            return wrap_int(x << y, cdt, op)
        if op == 'right_shift':
            if not isinstance(y, int):
                raise Undecided('symbolic shift count')
            if y < 0:
                raise Undecided('negative shift count')
            if y >= cdt.itemsize * 8:
                y = cdt.itemsize * 8 - 1
            return x >> y
        if op in ('bitwise_and', 'bitwise_or', 'bitwise_xor'):
            r = _PYOPS[op](x, y)
            # bit operations on in-range two's complement values stay in range for signed types;
            # for unsigned types a negative python operand was rejected before.
            return r if isinstance(r, int) and not isinstance(r, bool) and int_range(cdt)[0] <= r <= int_range(cdt)[1] else wrap_int(r, cdt, op)
    if cdt.kind == 'f':
        if op in ('add', 'subtract', 'multiply'):
            return _PYOPS[op](x, y)
        if op == 'true_divide':
            return _fdiv(x, y)
        if op == 'floor_divide':
            return _ffloordiv(x, y)
        if op == 'remainder':
            return _fmod(x, y)
    raise Undecided('numeric op %s in %s' % (op, cdt))


def _fdiv(x, y):
    """float64 division, exact when the exact quotient is a double."""
    if isinstance(y, float):
        if y == 0:
            raise Undecided('float division by zero (inf/nan)')
        if isinstance(x, float):
            return x / y
        return py_binop('truediv', x, y)
    # symbolic divisor
    dz = (y == 0)
    if dz is True or (dz is not False and bool(dz)):
        raise Undecided('float division by zero (inf/nan)')
    dx, dyy = core.dyadic_of(x), core.dyadic_of(y)
    if dx is None or dyy is None:
        raise Undecided('float quotient without dyadic witnesses')
    # exact quotient (ix/2^gx)/(iy/2^gy); representable iff iy | ix*2^k for some small k -- not
    # decidable in general, we return the exact real and flag it as free (no dyadic witness)
    core.CTX.notes.append('float64 quotient by symbolic divisor modelled as exact real')
    core.CTX.assumed_used.add('FP: quotient of two doubles treated as the exact real (consumers must floor it or prove representability)')
    return SNum(z3.simplify(zreal(x) / zreal(y)))


def _ffloordiv(x, y):
    """numpy float64 floor_divide: floor(x / y) exactly for dyadic operands within 53 bits."""
    dz = (y == 0)
    if dz is True or (dz is not False and bool(dz)):
        raise Undecided('float floor-division by zero')
    dx, dyy = core.dyadic_of(x), core.dyadic_of(y)
    if isinstance(y, (int, float)) and dx is not None and log2_exact(abs(y)) is not None:
        # divisor +-2^k: floor(x / y) keeps the significand (or drops low bits): always exact
        k = log2_exact(abs(y)); sgn = 1 if y > 0 else -1
        iw, g = dx
        iw = z3.simplify(iw * sgn)
        core.CTX.assumed_used.add('numpy: float64 floor_divide by a power of two is exact')
        if g + k <= 0:
            return SNum.float_of_intterm(iw, g + k)
        return SNum.float_of_intterm(core.CTX.div(iw, 1 << (g + k)), 0)
    if dx is None or dyy is None:
        raise Undecided('float floor_divide without dyadic witnesses')
    core.CTX.assumed_used.add('numpy: float64 floor_divide == floor(a/b) exactly for dyadic operands with <=53 significant bits and |quotient| < 2^53')
    g = max(dx[1], dyy[1])
    a = z3.simplify(dx[0] * (1 << (g - dx[1])))
    b = z3.simplify(dyy[0] * (1 << (g - dyy[1])))
    q = py_binop('floordiv', SNum(a), SNum(b) if not z3.is_int_value(b) else b.as_long())
    qt = q.t if isinstance(q, SNum) else z3.IntVal(q)
    return core.float_result(qt, 0, 'float floor_divide')


def _fmod(x, y):
    dz = (y == 0)
    if dz is True or (dz is not False and bool(dz)):
        raise Undecided('float remainder by zero')
    dx, dyy = core.dyadic_of(x), core.dyadic_of(y)
    if dx is None or dyy is None:
        # x % 1 on a free real: x - floor(x)
        if isinstance(y, (int, float)) and y == 1 and isinstance(x, SNum):
            fl = core.CTX.floor(x.t)
            core.CTX.assumed_used.add('FP: x % 1.0 == x - floor(x) exactly (fmod is exact)')
            return SNum(z3.simplify(x.t - z3.ToReal(fl)))
        raise Undecided('float remainder without dyadic witnesses')
    core.CTX.assumed_used.add('numpy: float64 remainder is exact (fmod) with the sign of the divisor')
    if isinstance(y, (int, float)) and y > 0 and log2_exact(y) is not None:
        k = log2_exact(y)
        iw, g = dx
        if g + k <= 0:
            return 0.0
        return SNum.float_of_intterm(core.CTX.mod(iw, 1 << (g + k)), g)
    g = max(dx[1], dyy[1])
    a = z3.simplify(dx[0] * (1 << (g - dx[1])))
    b = z3.simplify(dyy[0] * (1 << (g - dyy[1])))
    r = py_binop('mod', SNum(a), SNum(b) if not z3.is_int_value(b) else b.as_long())
    rt = r.t if isinstance(r, SNum) else z3.IntVal(r)
    return core.float_result(rt, g, 'float remainder')


def _is_forder(a):
    """a >=2-d array whose memory layout is column-major only (NumPy's order='K' results then keep that layout)"""
    return isinstance(a, SArr) and a.ndim >= 2 and a.idx.flags['F_CONTIGUOUS'] and not a.idx.flags['C_CONTIGUOUS']


def _to_forder(r):
    """the same logical array, stored column-major (what NumPy's elementwise operations / astype with the default
    order='K' return for column-major inputs); only ravel / flatten / reshape with a non-'C' order can tell the difference"""
    if not isinstance(r, SArr) or r.ndim < 2 or r.__class__ is not SArr:
        return r
    el = r.elems
    n = len(el)
    idx = _np.arange(n).reshape(r.shape[::-1]).T          # column-major positions
    store = [None] * n
    for pos, e in zip(idx.ravel().tolist(), el):           # idx.ravel() = logical (row-major) walk
        store[pos] = e
    return SArr(store, idx, r.dtype)


def _finish(shape, res, dt, scalar_out):
    if scalar_out and len(shape) == 0:
        if dt.kind == 'O':
            return res[0]
        return SGen(list(res), _np.zeros((), dtype=int), dt)
    return new_like(shape, res, dt)


def unary(op, a):
    r = _unary(op, a)
    if _is_forder(a) and isinstance(r, SArr) and tuple(r.shape) == tuple(a.shape):
        return _to_forder(r)
    return r


def _unary(op, a):
    core.CTX.assumed_used.add('numpy: elementwise %s' % op)
    dt = a.dtype
    el = a.elems
    if op == 'positive':
        res = list(el)
    elif op == 'negative':
        if dt.kind == 'b':
            raise TypeError('The numpy boolean negative, the `-` operator, is not supported')
        res = [(-e) for e in el]
        if dt.kind in INT_KINDS:
            res = [wrap_int(r, dt, 'negative') for r in res]
    elif op == 'absolute':
        res = [abs(e) for e in el]
        if dt.kind in INT_KINDS:
            res = [wrap_int(r, dt, 'absolute') for r in res]
    elif op == 'invert':
        if dt.kind == 'b':
            res = [bnot(e) for e in el]
        elif dt.kind == 'i':
            res = [~e if isinstance(e, int) else SNum(z3.simplify(-e.t - 1)) for e in el]
        elif dt.kind == 'u':
            hi = int_range(dt)[1]
            res = [hi - e for e in el]
        else:
            raise TypeError("ufunc 'invert' not supported for the input types")
    else:
        raise Undecided('unary %s' % op)
    return _finish(a.shape, res, dt, a.is_scalar or a.ndim == 0)


# ----------------------------------------------------------------------------------------
# reductions
# ----------------------------------------------------------------------------------------
def _as_bool_elem(e):
    if isinstance(e, (bool, SBool)):
        return e
    r = (e != 0)
    return r


def _red_axes(a, axis, f, dt, obj_unwrap=True):
    if axis is None:
        el = a.elems
        if not el:
            return None
        v = f(el)
        if dt.kind == 'O':
            return v
        return SGen([v], _np.zeros((), dtype=int), dt)
    moved = _np.moveaxis(a.idx, axis, -1)
    out_shape = moved.shape[:-1]
    rows = moved.reshape(-1, moved.shape[-1])
    res = [f([a.store[i] for i in row.tolist()]) for row in rows]
    if len(out_shape) == 0:
        if dt.kind == 'O':
            return res[0]
        return SGen(res, _np.zeros((), dtype=int), dt)
    return new_like(out_shape, res, dt)


def reduce_any(a, axis=None):
    core.CTX.assumed_used.add('numpy: any/all are the disjunction/conjunction of element truth values')
    if a.size == 0:
        return False
    r = _red_axes(a, axis, lambda el: bor(*[_as_bool_elem(e) for e in el]), BOOL)
    return _unwrap_bool(r)


def reduce_all(a, axis=None):
    core.CTX.assumed_used.add('numpy: any/all are the disjunction/conjunction of element truth values')
    if a.size == 0:
        return True
    r = _red_axes(a, axis, lambda el: band(*[_as_bool_elem(e) for e in el]), BOOL)
    return _unwrap_bool(r)


def _unwrap_bool(r):
    # np.any returns np.bool_; used only in boolean context by the library: hand back the
    # element itself (bool / SBool) so that `if np.any(..)` forks once.
    if isinstance(r, SGen):
        return r.value
    return r


def _ite_num(c, a, b):
    """value-level if-then-else on Python-level numbers of the same kind."""
    if c is True:
        return a
    if c is False:
        return b
    ta, tb = zterm(a), zterm(b)
    if z3.is_int(ta) and z3.is_int(tb):
        return SNum(z3.simplify(z3.If(c.t, ta, tb)))
    da, db = core.dyadic_of(a), core.dyadic_of(b)
    dy = None
    if da is not None and db is not None:
        g = max(da[1], db[1])
        dy = (z3.simplify(z3.If(c.t, da[0] * (1 << (g - da[1])), db[0] * (1 << (g - db[1])))), g)
    kc = None
    ka, kb = kind_of(a), kind_of(b)
    if ka != kb or ka == 'num':
        def kcond(x, k):
            if k == 'int': return z3.BoolVal(True)
            if k == 'float': return z3.BoolVal(False)
            return x.kc
        kc = z3.simplify(z3.If(c.t, kcond(a, ka), kcond(b, kb)))
    return SNum(z3.simplify(z3.If(c.t, zreal(a), zreal(b))), dy, kc)


def _max2(a, b, want_max):
    c = (b > a) if want_max else (b < a)
    return _ite_num(c, b, a)


def reduce_minmax(a, axis, want_max):
    core.CTX.assumed_used.add('numpy: max/min return the extreme element')
    if a.dtype.kind in 'US':
        raise Undecided('max/min of strings')
    if a.size == 0:
        raise ValueError('zero-size array to reduction operation maximum which has no identity')
    def f(el):
        r = el[0]
        for e in el[1:]:
            r = _max2(r, e, want_max)
        return r
    return _red_axes(a, axis, f, a.dtype)


def reduce_sum(a, axis=None, dtype=None, **kw):
    core.CTX.assumed_used.add('numpy: sum/cumsum/prod/cumprod/dot/trace compute the mathematical result, wrapped in the accumulator dtype')
    dt = a.dtype
    if dtype is not None:
        raise Undecided('sum with dtype')
    if dt.kind == 'b':
        rdt = I64
    elif dt.kind in INT_KINDS:
        rdt = I64 if dt.kind == 'i' else U64
    else:
        rdt = dt
    def f(el):
        r = el[0] if not isinstance(el[0], (bool, SBool)) else (int(el[0]) if isinstance(el[0], bool) else SNum(zint(el[0])))
        for e in el[1:]:
            r = r + e
            if rdt.kind in INT_KINDS:
                r = wrap_int(r, rdt, 'sum')
        return r
    if a.size == 0:
        return SGen([0 if rdt.kind != 'f' else 0.0], _np.zeros((), dtype=int), rdt)
    return _red_axes(a, axis, f, rdt)


def reduce_prod(a, axis=None, **kw):
    core.CTX.assumed_used.add('numpy: sum/cumsum/prod/cumprod/dot/trace compute the mathematical result, wrapped in the accumulator dtype')
    dt = a.dtype
    rdt = dt if dt.kind not in 'b' else I64
    if dt.kind in INT_KINDS:
        rdt = I64 if dt.kind == 'i' else U64
    def f(el):
        r = el[0]
        for e in el[1:]:
            r = r * e
            if rdt.kind in INT_KINDS:
                r = wrap_int(r, rdt, 'prod')
        return r
    return _red_axes(a, axis, f, rdt)


def cumulative(a, axis, mul=False):
    core.CTX.assumed_used.add('numpy: sum/cumsum/prod/cumprod/dot/trace compute the mathematical result, wrapped in the accumulator dtype')
    dt = a.dtype
    rdt = dt
    if dt.kind in INT_KINDS or dt.kind == 'b':
        rdt = U64 if dt.kind == 'u' else I64
    if axis is None:
        src = a.flatten()
        axis = 0
    else:
        src = a
    moved = _np.moveaxis(src.idx, axis, -1)
    out = [None] * src.size
    rows = moved.reshape(-1, moved.shape[-1])
    for row in rows:
        acc = None
        for pos in row.tolist():
            e = src.store[pos]
            if acc is None:
                acc = e
            else:
                acc = acc * e if mul else acc + e
                if rdt.kind in INT_KINDS:
                    acc = wrap_int(acc, rdt, 'cum')
            out[pos] = acc
    # positions are store positions of `src` (fresh, contiguous)
    el = [out[i] for i in src.idx.ravel().tolist()]
    return new_like(src.shape, el, rdt)
