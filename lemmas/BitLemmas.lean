/-
BitLemmas.lean -- two's-complement bit operations on mathematical integers (`Int`),
mirroring Python's semantics for unbounded ints:
  Python `%` with positive modulus = `Int.emod` (`%` on `Int`),
  Python `//` by a positive divisor = floor division = `Int.ediv` (`/` on `Int`) for positive divisor,
  Python `>>` = arithmetic (floor) shift, Python `~x` = `-x - 1`.

NOTE on notation: in this toolchain (Lean 4.33.0 + Mathlib) core provides `~~~`, `>>>`, `<<<`
on `Int` (`Int.not`, `Int.shiftRight`, `Int.shiftLeft`, shift amount a `Nat`), but there is NO
`&&&` / `|||` / `^^^` instance on `Int`.  Mathlib defines the two's-complement operations as
`Int.land`, `Int.lor`, `Int.xor` (Mathlib.Data.Int.Bitwise), with the bit-level characterisations
`Int.testBit_land`, `Int.testBit_lor`, `Int.testBit_lxor`.  The three instances below merely attach
the infix notation to those Mathlib definitions (`and_eq_land` etc. are `rfl`); the theorems
`testBit_and/or/xor` restate the bitwise (infinite two's-complement) meaning.

Every proof is complete and kernel-checked (standard axioms only: propext, Classical.choice,
Quot.sound -- see the `#print axioms` output at the end).  All statements as requested are TRUE
as written; only the notation instances had to be added.
-/
import Mathlib.Data.Int.Bitwise
import Mathlib.Tactic

namespace BitLemmas

instance : AndOp Int := ⟨Int.land⟩
instance : OrOp Int := ⟨Int.lor⟩
instance : XorOp Int := ⟨Int.xor⟩

theorem and_eq_land (a b : Int) : a &&& b = Int.land a b := rfl
theorem or_eq_lor (a b : Int) : a ||| b = Int.lor a b := rfl
theorem xor_eq_xor (a b : Int) : a ^^^ b = Int.xor a b := rfl


/-! ### two's-complement meaning of the notations (bit `k` of the infinite sign-extended expansion) -/

theorem testBit_and (a b : Int) (k : Nat) : (a &&& b).testBit k = (a.testBit k && b.testBit k) :=
  Int.testBit_land a b k
theorem testBit_or (a b : Int) (k : Nat) : (a ||| b).testBit k = (a.testBit k || b.testBit k) :=
  Int.testBit_lor a b k
theorem testBit_xor (a b : Int) (k : Nat) : (a ^^^ b).testBit k = (a.testBit k ^^ b.testBit k) :=
  Int.testBit_lxor a b k

/-! ### sanity checks against Python values (kernel `decide`) -/
example : (-5 : Int) ||| (-8) = -5 := by decide      -- Python: -5 | -8 == -5
example : (-5 : Int) ^^^ 3 = -8 := by decide         -- Python: -5 ^ 3 == -8
example : (-7 : Int) >>> (1 : Nat) = -4 := by decide -- Python: -7 >> 1 == -4
example : (-7 : Int) <<< (2 : Nat) = -28 := by decide -- Python: -7 << 2 == -28
example : ~~~(5 : Int) = -6 := by decide             -- Python: ~5 == -6

/-- key Nat fact: bits of (2^n-1) not in m -/
theorem nat_ldiff_mask (m n : Nat) :
    Nat.ldiff (2 ^ n - 1) m = 2 ^ n - (m % 2 ^ n + 1) := by
  apply Nat.eq_of_testBit_eq
  intro i
  have hlt : m % 2 ^ n < 2 ^ n := Nat.mod_lt _ (Nat.two_pow_pos n)
  rw [Nat.testBit_ldiff, Nat.testBit_two_pow_sub_one, Nat.testBit_two_pow_sub_succ hlt,
    Nat.testBit_mod_two_pow]
  cases decide (i < n) <;> cases m.testBit i <;> rfl

theorem pow_sub_one_cast (n : Nat) : (2:Int)^n - 1 = ((2 ^ n - 1 : Nat) : Int) := by
  have : 1 ≤ 2 ^ n := Nat.two_pow_pos n
  push_cast [Nat.cast_sub this]
  rfl

theorem neg_pow_eq_negSucc (n : Nat) : -((2:Int)^n) = Int.negSucc (2 ^ n - 1) := by
  have : 1 ≤ 2 ^ n := Nat.two_pow_pos n
  rw [Int.negSucc_eq]
  push_cast [Nat.cast_sub this]
  ring

theorem and_mask (x : Int) (n : Nat) : x &&& ((2:Int)^n - 1) = x % (2:Int)^n := by
  have hpos : (0:Int) < 2 ^ n := by positivity
  rw [pow_sub_one_cast, and_eq_land]
  cases x with
  | ofNat m =>
    show ((m &&& (2 ^ n - 1) : Nat) : Int) = _
    rw [Nat.and_two_pow_sub_one_eq_mod]
    simp
  | negSucc m =>
    show ((Nat.ldiff (2 ^ n - 1) m : Nat) : Int) = _
    rw [nat_ldiff_mask, Int.negSucc_emod m hpos]
    have hlt : m % 2 ^ n < 2 ^ n := Nat.mod_lt _ (Nat.two_pow_pos n)
    push_cast [Nat.cast_sub (Nat.succ_le_of_lt hlt)]
    ring

theorem or_neg_pow (x : Int) (n : Nat) : x ||| (-((2:Int)^n)) = x % (2:Int)^n - (2:Int)^n := by
  have hpos : (0:Int) < 2 ^ n := by positivity
  rw [neg_pow_eq_negSucc, or_eq_lor]
  cases x with
  | ofNat m =>
    show Int.negSucc (Nat.ldiff (2 ^ n - 1) m) = _
    rw [nat_ldiff_mask, Int.negSucc_eq]
    have hlt : m % 2 ^ n < 2 ^ n := Nat.mod_lt _ (Nat.two_pow_pos n)
    push_cast [Nat.cast_sub (Nat.succ_le_of_lt hlt)]
    simp
    ring
  | negSucc m =>
    show Int.negSucc (m &&& (2 ^ n - 1)) = _
    rw [Nat.and_two_pow_sub_one_eq_mod, Int.negSucc_emod m hpos, Int.negSucc_eq]
    push_cast
    ring

theorem shr_eq_div (x : Int) (k : Nat) : x >>> k = x / (2:Int)^k := by
  rw [Int.shiftRight_eq_div_pow]; push_cast; rfl

theorem shl_eq_mul (x : Int) (k : Nat) : x <<< k = x * (2:Int)^k :=
  Int.shiftLeft_eq x k

theorem and_range (a b : Int) (n : Nat) (ha : 0 ≤ a) (ha' : a < 2^n) (hb : 0 ≤ b) (hb' : b < 2^n) :
    0 ≤ a &&& b ∧ a &&& b < 2^n := by
  obtain ⟨m, rfl⟩ := Int.eq_ofNat_of_zero_le ha
  obtain ⟨k, rfl⟩ := Int.eq_ofNat_of_zero_le hb
  have hk : k < 2 ^ n := by exact_mod_cast hb'
  show 0 ≤ ((m &&& k : Nat) : Int) ∧ ((m &&& k : Nat) : Int) < 2 ^ n
  refine ⟨Int.natCast_nonneg _, ?_⟩
  exact_mod_cast Nat.and_lt_two_pow m hk

theorem or_range (a b : Int) (n : Nat) (ha : 0 ≤ a) (ha' : a < 2^n) (hb : 0 ≤ b) (hb' : b < 2^n) :
    0 ≤ a ||| b ∧ a ||| b < 2^n := by
  obtain ⟨m, rfl⟩ := Int.eq_ofNat_of_zero_le ha
  obtain ⟨k, rfl⟩ := Int.eq_ofNat_of_zero_le hb
  have hm : m < 2 ^ n := by exact_mod_cast ha'
  have hk : k < 2 ^ n := by exact_mod_cast hb'
  show 0 ≤ ((m ||| k : Nat) : Int) ∧ ((m ||| k : Nat) : Int) < 2 ^ n
  refine ⟨Int.natCast_nonneg _, ?_⟩
  exact_mod_cast Nat.or_lt_two_pow hm hk

theorem xor_range (a b : Int) (n : Nat) (ha : 0 ≤ a) (ha' : a < 2^n) (hb : 0 ≤ b) (hb' : b < 2^n) :
    0 ≤ a ^^^ b ∧ a ^^^ b < 2^n := by
  obtain ⟨m, rfl⟩ := Int.eq_ofNat_of_zero_le ha
  obtain ⟨k, rfl⟩ := Int.eq_ofNat_of_zero_le hb
  have hm : m < 2 ^ n := by exact_mod_cast ha'
  have hk : k < 2 ^ n := by exact_mod_cast hb'
  show 0 ≤ ((m ^^^ k : Nat) : Int) ∧ ((m ^^^ k : Nat) : Int) < 2 ^ n
  refine ⟨Int.natCast_nonneg _, ?_⟩
  exact_mod_cast Nat.xor_lt_two_pow hm hk

theorem compl_eq (a : Int) : ~~~a = -a - 1 := by
  cases a with
  | ofNat m => show Int.negSucc m = _; rw [Int.negSucc_eq]; simp; ring
  | negSucc m => show (m : Int) = _; rw [Int.negSucc_eq]; ring

theorem compl_in_width (a : Int) (n : Nat) (ha : 0 ≤ a) (ha' : a < 2^n) :
    (~~~a) % (2:Int)^n = 2^n - 1 - a := by
  rw [compl_eq]
  have h : -a - 1 = (2^n - 1 - a) + (2:Int)^n * (-1) := by ring
  rw [h, Int.add_mul_emod_self_left]
  apply Int.emod_eq_of_lt <;> omega

/-! ### single-bit facts -/

/-- `-[m+1] / 2^k = -[(m / 2^k)+1]` (floor division of a negative number by a power of two). -/
theorem negSucc_div_pow (m k : Nat) :
    Int.negSucc m / (2:Int)^k = Int.negSucc (m / 2 ^ k) := by
  rw [← shr_eq_div]
  show Int.negSucc (m >>> k) = _
  rw [Nat.shiftRight_eq_div_pow]

/-- the binary digit (floor division) of a negative number is the complement of the digit of `m` -/
theorem negSucc_digit (m k : Nat) :
    (Int.negSucc m / (2:Int)^k) % 2 = 1 - ((m / 2 ^ k % 2 : Nat) : Int) := by
  rw [negSucc_div_pow, Int.negSucc_emod _ (by norm_num : (0:Int) < 2)]
  push_cast
  ring

/-- B4c: bit `k` (two's complement, sign-extended) is the `k`-th binary digit w.r.t. floor division,
for every integer `a`, including negative ones. -/
theorem testBit_iff_digit (a : Int) (k : Nat) :
    a.testBit k = true ↔ (a / (2:Int)^k) % 2 = 1 := by
  cases a with
  | ofNat m =>
    show m.testBit k = true ↔ ((m : Int) / (2:Int)^k) % 2 = 1
    rw [Nat.testBit_eq_decide_div_mod_eq, decide_eq_true_iff]
    have h : ((m : Int) / (2:Int)^k) % 2 = ((m / 2 ^ k % 2 : Nat) : Int) := by push_cast; rfl
    rw [h]
    omega
  | negSucc m =>
    show (!m.testBit k) = true ↔ _
    rw [negSucc_digit, Nat.testBit_eq_decide_div_mod_eq]
    have h2 : m / 2 ^ k % 2 < 2 := Nat.mod_lt _ (by norm_num)
    by_cases h : m / 2 ^ k % 2 = 1
    · simp [h]
    · have h0 : m / 2 ^ k % 2 = 0 := by omega
      simp [h0]

theorem nat_ldiff_pow (m k : Nat) :
    Nat.ldiff (2 ^ k) m = (!m.testBit k).toNat * 2 ^ k := by
  apply Nat.eq_of_testBit_eq
  intro i
  rw [Nat.testBit_ldiff, Nat.testBit_two_pow]
  by_cases hki : k = i
  · subst hki
    cases h : m.testBit k <;> simp
  · cases h : m.testBit k <;> simp [hki]

/-- B1b: AND with a single bit `2^k` extracts the `k`-th binary digit (floor division). -/
theorem and_pow (x : Int) (k : Nat) :
    x &&& (2:Int)^k = (2:Int)^k * ((x / (2:Int)^k) % 2) := by
  have hc : (2:Int)^k = ((2 ^ k : Nat) : Int) := by push_cast; rfl
  rw [and_eq_land]
  cases x with
  | ofNat m =>
    have : Int.land (Int.ofNat m) ((2:Int)^k) = ((m &&& 2 ^ k : Nat) : Int) := by rw [hc]; rfl
    rw [this, Nat.and_two_pow, Nat.toNat_testBit]
    show _ = (2:Int)^k * (((m : Int) / (2:Int)^k) % 2)
    push_cast
    ring
  | negSucc m =>
    have : Int.land (Int.negSucc m) ((2:Int)^k) = ((Nat.ldiff (2 ^ k) m : Nat) : Int) := by
      rw [hc]; rfl
    rw [this, nat_ldiff_pow, negSucc_digit]
    have h2 : m / 2 ^ k % 2 < 2 := Nat.mod_lt _ (by norm_num)
    rw [Nat.testBit_eq_decide_div_mod_eq]
    by_cases h : m / 2 ^ k % 2 = 1
    · simp [h]
    · have h0 : m / 2 ^ k % 2 = 0 := by omega
      simp [h0]

-- (`Nat.ldiff` is defined by well-founded recursion, so these two go through the theorems above)
example : (-5 : Int) &&& 7 = 3 := by                 -- Python: -5 & 7 == 3
  have h := and_mask (-5) 3
  norm_num at h
  exact h
example : (5 : Int) ||| (-8) = -3 := by              -- Python: 5 | -8 == -3
  have h := or_neg_pow 5 3
  norm_num at h
  exact h

end BitLemmas

#print axioms BitLemmas.and_mask
#print axioms BitLemmas.or_neg_pow
#print axioms BitLemmas.shr_eq_div
#print axioms BitLemmas.shl_eq_mul
#print axioms BitLemmas.and_range
#print axioms BitLemmas.or_range
#print axioms BitLemmas.xor_range
#print axioms BitLemmas.compl_eq
#print axioms BitLemmas.compl_in_width
#print axioms BitLemmas.and_pow
#print axioms BitLemmas.testBit_iff_digit
