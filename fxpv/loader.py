"""fxpv.loader -- builds the shadow package `fxpmath_sym` from /repo's *current* sources on every
run by a mechanical AST transformation (T1..T6 of DESIGN.md section 2.1) and imports the untouched
package `fxpmath` from the same tree for native replay.

What the transformation changes (complete list; counts are reported in the evidence):
  T1  `import numpy as np`            -> `np = __fxpv_npc__`     (utils, objects, functions only)
  T2  calls `int( float( bool( str( isinstance( type( max( min( len( bin( hex( map( set( print(`
      -> `__fxpv_pyc__.<name>_(`   (only call sites; bare names such as `dtype == int` are untouched)
  T4  `"const".format(...)` / f-strings -> `__fxpv_pyc__.format_/fstring_`
  T5  `while` loops get `__fxpv_pyc__.loop_tick(<id>)` as first body statement (unwinding bound)
  T6  listed single-assignment `if` statements are if-converted (sidecar list, see IFCONV)
  T7  every function body gets `__fxpv_pyc__.enter_('<module>:<qualname>')` as first statement (a no-op that
      records which real functions were executed on symbolic data; reported in the evidence)
Nothing is dropped.
"""
import ast
import hashlib
import importlib
import importlib.abc
import importlib.util
import os
import sys

REPO = os.environ.get('FXPV_REPO', '/repo')
SHADOW = 'fxpmath_sym'
TRANSFORM_COUNTS = {}
SOURCE_SHA = {}
ALL_FUNCTIONS = set()          # '<module>:<qualname>' of every function definition in utils / objects / functions

# T6: (module, function qualname) -> True : `if c: x = e` (no else) inside while loops of that function
IFCONV = {('objects', 'set_best_sizes')}


class _T(ast.NodeTransformer):
    def __init__(self, modname, with_np):
        self.modname = modname
        self.with_np = with_np
        self.counts = {'T1': 0, 'T2': 0, 'T4': 0, 'T5': 0, 'T6': 0, 'T7': 0}
        self.func_stack = []
        self.loop_n = 0
        self.in_while = 0

    def visit_Import(self, node):
        if self.with_np and len(node.names) == 1 and node.names[0].name == 'numpy' and node.names[0].asname == 'np':
            self.counts['T1'] += 1
            return ast.copy_location(ast.Assign(targets=[ast.Name(id='np', ctx=ast.Store())],
                                                value=ast.Name(id='__fxpv_npc__', ctx=ast.Load())), node)
        return node

    def visit_ClassDef(self, node):
        self.func_stack.append(node.name)
        self.generic_visit(node)
        self.func_stack.pop()
        return node

    def visit_FunctionDef(self, node):
        self.func_stack.append(node.name)
        self.generic_visit(node)
        qual = '%s:%s' % (self.modname, '.'.join(self.func_stack))
        self.func_stack.pop()
        if self.with_np:
            ALL_FUNCTIONS.add(qual)
            self.counts['T7'] += 1
            enter = ast.Expr(value=ast.Call(func=ast.Attribute(value=ast.Name(id='__fxpv_pyc__', ctx=ast.Load()), attr='enter_', ctx=ast.Load()),
                                            args=[ast.Constant(value=qual)], keywords=[]))
            at = 1 if (node.body and isinstance(node.body[0], ast.Expr) and isinstance(node.body[0].value, ast.Constant)
                       and isinstance(node.body[0].value.value, str)) else 0
            node.body.insert(at, ast.copy_location(enter, node.body[0]))
        return node

    def visit_Call(self, node):
        self.generic_visit(node)
        from .pyc import SHIMMED_CALLS
        f = node.func
        if self.with_np and isinstance(f, ast.Name) and f.id in SHIMMED_CALLS:
            self.counts['T2'] += 1
            node.func = ast.copy_location(ast.Attribute(value=ast.Name(id='__fxpv_pyc__', ctx=ast.Load()),
                                                        attr=SHIMMED_CALLS[f.id], ctx=ast.Load()), f)
            return node
        if self.with_np and isinstance(f, ast.Attribute) and f.attr == 'format' and isinstance(f.value, ast.Constant) and isinstance(f.value.value, str):
            self.counts['T4'] += 1
            new = ast.Call(func=ast.Attribute(value=ast.Name(id='__fxpv_pyc__', ctx=ast.Load()), attr='format_', ctx=ast.Load()),
                           args=[f.value] + node.args, keywords=node.keywords)
            return ast.copy_location(new, node)
        return node

    def visit_JoinedStr(self, node):
        self.generic_visit(node)
        if not self.with_np:
            return node
        self.counts['T4'] += 1
        parts = []
        for v in node.values:
            if isinstance(v, ast.Constant):
                parts.append(v)
            else:
                conv = {-1: None, 115: 's', 114: 'r', 97: 'a'}[v.conversion]
                spec = v.format_spec if v.format_spec is not None else ast.Constant(value='')
                if isinstance(spec, ast.JoinedStr):
                    if all(isinstance(s, ast.Constant) for s in spec.values):
                        spec = ast.Constant(value=''.join(s.value for s in spec.values))
                    else:
                        spec = ast.Constant(value='')
                parts.append(ast.Tuple(elts=[v.value, ast.Constant(value=conv), spec], ctx=ast.Load()))
        new = ast.Call(func=ast.Attribute(value=ast.Name(id='__fxpv_pyc__', ctx=ast.Load()), attr='fstring_', ctx=ast.Load()),
                       args=parts, keywords=[])
        return ast.copy_location(new, node)

    def visit_While(self, node):
        self.in_while += 1
        self.generic_visit(node)
        self.in_while -= 1
        if not self.with_np:
            return node
        self.loop_n += 1
        self.counts['T5'] += 1
        lid = '%s:%s#%d' % (self.modname, '.'.join(self.func_stack) or '<module>', self.loop_n)
        tick = ast.Expr(value=ast.Call(func=ast.Attribute(value=ast.Name(id='__fxpv_pyc__', ctx=ast.Load()), attr='loop_tick', ctx=ast.Load()),
                                       args=[ast.Constant(value=lid)], keywords=[]))
        node.body.insert(0, ast.copy_location(tick, node))
        return node

    def visit_If(self, node):
        self.generic_visit(node)
        fn = self.func_stack[-1] if self.func_stack else None
        if (self.with_np and self.in_while and (self.modname, fn) in IFCONV and not node.orelse and len(node.body) == 1
                and isinstance(node.body[0], ast.Assign) and len(node.body[0].targets) == 1
                and isinstance(node.body[0].targets[0], ast.Name) and isinstance(node.body[0].value, ast.Name)):
            tgt = node.body[0].targets[0]
            self.counts['T6'] += 1
            new = ast.Assign(targets=[ast.Name(id=tgt.id, ctx=ast.Store())],
                             value=ast.Call(func=ast.Attribute(value=ast.Name(id='__fxpv_pyc__', ctx=ast.Load()), attr='ite_', ctx=ast.Load()),
                                            args=[node.test, node.body[0].value, ast.Name(id=tgt.id, ctx=ast.Load())], keywords=[]))
            return ast.copy_location(new, node)
        return node


class _Finder(importlib.abc.MetaPathFinder, importlib.abc.Loader):
    def find_spec(self, fullname, path, target=None):
        if fullname == SHADOW:
            fn = os.path.join(REPO, 'fxpmath', '__init__.py')
            return importlib.util.spec_from_file_location(fullname, fn, loader=self,
                                                          submodule_search_locations=[os.path.join(REPO, 'fxpmath')])
        if fullname.startswith(SHADOW + '.'):
            sub = fullname.split('.', 1)[1]
            fn = os.path.join(REPO, 'fxpmath', sub.replace('.', os.sep) + '.py')
            if os.path.exists(fn):
                return importlib.util.spec_from_file_location(fullname, fn, loader=self)
        return None

    def create_module(self, spec):
        return None

    def exec_module(self, module):
        fn = module.__spec__.origin
        with open(fn, 'rb') as f:
            raw = f.read()
        short = os.path.basename(fn)[:-3]
        SOURCE_SHA[short] = hashlib.sha256(raw).hexdigest()
        tree = ast.parse(raw.decode('utf-8'), filename=fn)
        with_np = short in ('utils', 'objects', 'functions')
        tr = _T(short, with_np)
        tree = tr.visit(tree)
        ast.fix_missing_locations(tree)
        TRANSFORM_COUNTS[short] = tr.counts
        from . import npc, pyc
        module.__dict__['__fxpv_npc__'] = npc
        module.__dict__['__fxpv_pyc__'] = pyc
        code = compile(tree, fn, 'exec')
        exec(code, module.__dict__)


_installed = False

def install():
    global _installed
    if not _installed:
        sys.meta_path.insert(0, _Finder())
        _installed = True


class _Boot:
    """minimal context so that import-time code (decorators) can touch the contract library"""


def load():
    """-> (shadow package, native package).  Import-time code of the shadow modules runs under a
    throw-away path context."""
    from . import core
    install()
    if REPO not in sys.path:
        sys.path.insert(0, REPO)
    for k in [k for k in sys.modules if k == 'fxpmath' or k.startswith('fxpmath.')]:
        m = sys.modules[k]
        f = getattr(m, '__file__', '') or ''
        if not f.startswith(REPO + os.sep):
            del sys.modules[k]
    native = importlib.import_module('fxpmath')
    nf = os.path.realpath(native.__file__)
    if not nf.startswith(os.path.realpath(REPO) + os.sep):
        raise core.CheckerError('native fxpmath imported from %s, expected under %s' % (nf, REPO))
    old = core.CTX
    core.CTX = core.Ctx()
    try:
        shadow = importlib.import_module(SHADOW)
    finally:
        core.CTX = old
    return shadow, native


class Snapshot:
    """module/class-level mutable state of the library, restored around every path"""
    def __init__(self, pkg):
        self.pkg = pkg
        o = pkg.objects
        self.fxp_template = o.Fxp.__dict__.get('template')
        self.cfg_template = o.Config.__dict__.get('template')
        self.handled = dict(o._NUMPY_HANDLED_FUNCTIONS)
        self.attrs = {}

    def restore(self):
        o = self.pkg.objects
        o.Fxp.template = self.fxp_template
        o.Config.template = self.cfg_template
        o._NUMPY_HANDLED_FUNCTIONS.clear()
        o._NUMPY_HANDLED_FUNCTIONS.update(self.handled)
