"""Binary / hex / base_repr strings (C11).  Decided by the BOUNDED stand-in: run-time contract checking on the
untransformed library, exhaustive over all codes for n_word <= 8 and boundary + seeded random codes up to 256
bits (symbolic strings are outside the prover's reach in this build)."""
import os
import random
from fxpv.harness import Contract, contract
from contracts.common import *
from specs.core import range_of


def spec_bits(c, n):
    p = c % (1 << n)
    return format(p, '0%db' % n)


def spec_bin(c, n, f=None, prefix=None):
    s = spec_bits(c, n)
    if f is not None:
        if 0 < f < n:
            s = s[:n - f] + '.' + s[n - f:]
        elif f == 0:
            s = s + '.'
        elif f == n:
            s = '.' + s
        elif f > n:
            s = '.' + '0' * (f - n) + s
        else:
            s = s + '#' * (-f) + '.'
    if prefix:
        s = prefix + s
    return s


def spec_hex(c, n):
    p = c % (1 << n)
    return '0x' + format(p, '0%dX' % ((n + 3) // 4))


def spec_base(c, b):
    digits = '0123456789ABCDEFGHIJKLMNOPQRSTUVWXYZ'
    m = abs(c)
    out = ''
    while m:
        out = digits[m % b] + out
        m //= b
    return ('-' if c < 0 else '') + (out or '0')


def codes_for(signed, n, seed):
    lo, hi = range_of(signed, n)
    if n <= 8:
        return list(range(lo, hi + 1))
    rng = random.Random(seed * 1000003 + n * 2 + int(signed))
    cs = {lo, lo + 1, hi, hi - 1, 0, 1, -1 if signed else 2, hi // 2, lo // 2, (1 << (n // 2)) - 1, 5, 10, 0xA5A5 % (hi + 1)}
    for _ in range(24):
        cs.add(rng.randint(lo, hi))
    return sorted(c for c in cs if lo <= c <= hi)


@contract
class Strings(Contract):
    """bin() is the n_word-character two's-complement image of the code (binary point n_frac digits from the
    right when requested, selected prefix), hex() the same pattern in ceil(n_word/4) upper-case digits,
    base_repr(b) the sign-magnitude numeral; a rendered binary / hex string fed back into an object of the same
    format (constructor, call, set_val, from_bin; value mode for n_word <= 53, raw mode for any width) restores
    the same code, element-wise for arrays; input lists of strings are not modified."""
    name = 'objects:Fxp.bin/hex/base_repr/from_bin'
    layer = 5
    native_only = True
    props = {'*': ['C11'], 'input_unchanged': ['C11', 'C20'], 'render_bin_wide': ['C11', 'C18'], 'render_hex_wide': ['C11', 'C18'], 'parse_raw_wide': ['C11', 'C18']}
    conditional_clauses = ('render_bin_wide', 'render_hex_wide', 'parse_raw_wide')

    def configs(self, tier):
        words = [1, 2, 3, 4, 5, 7, 8, 9, 12, 16, 31, 32, 33, 53, 63, 64, 65, 128, 256] if tier == 'quick' else \
            list(range(1, 34)) + [48, 52, 53, 54, 63, 64, 65, 66, 72, 96, 100, 127, 128, 129, 200, 255, 256]
        for n in words:
            for signed in (True, False):
                fr = sorted({0, 1, n // 2, n - 1, n} & set(range(0, n + 1))) if (tier == 'quick' and n > 8) else list(range(0, n + 1)) if n <= 8 else sorted({0, 1, n // 3, n // 2, n - 1, n})
                for f in fr:
                    yield dict(signed=signed, n_word=n, n_frac=f)

    def run(self, cfg, P, inp):
        Fxp = P.Fxp
        s, n, f = cfg['signed'], cfg['n_word'], cfg['n_frac']
        seed = int(os.environ.get('VERIF_SEED', '0') or 0)
        codes = codes_for(s, n, seed)
        bad = []
        cases = 0
        def chk(name, cond, detail):
            nonlocal cases
            cases += 1
            if not cond and len(bad) < 6:
                bad.append([name, detail])
        wide = n >= 64
        for c in codes:
            x = Fxp(c, s, n, f, raw=True)
            chk('stored', int(x.val) == c, [c])
            b = x.bin()
            chk('render_bin' + ('_wide' if wide else ''), b == spec_bin(c, n), [c, b])
            chk('render_bin_dot', x.bin(frac_dot=True) == spec_bin(c, n, f), [c, x.bin(frac_dot=True)])
            chk('render_bin_prefix', x.bin(prefix='0b') == spec_bin(c, n, None, '0b') and x.bin(frac_dot=True, prefix=True) == spec_bin(c, n, f, '0b'), [c, x.bin(prefix='0b')])
            h = x.hex()
            chk('render_hex' + ('_wide' if wide else ''), h == spec_hex(c, n), [c, h])
            # the selected prefix: short form 'b', and prefixes selected through the configuration
            chk('render_bin_prefix', x.bin(prefix='b') == spec_bin(c, n, None, 'b'), [c, 'b', x.bin(prefix='b')])
            xc = Fxp(c, s, n, f, raw=True, bin_prefix='b')
            chk('render_bin_prefix', xc.bin() == spec_bin(c, n, None, 'b'), [c, 'config b', xc.bin()])
            try:
                hc = xc.hex()
            except Exception as e:
                hc = 'raised %s' % type(e).__name__
            chk('render_hex_any_bin_prefix', hc == spec_hex(c, n), [c, 'hex() with config.bin_prefix=b', hc])
            if n >= 2:
                for text, kw in ((x.bin(prefix='b'), {}), (xc.bin(), {}), (x.bin(prefix='b'), {'raw': True})):
                    if kw or n <= 53:
                        try:
                            yv = int(Fxp(text, s, n, f, **kw).val)
                        except Exception as e:
                            yv = 'raised %s' % type(e).__name__
                        chk('parse_short_prefix', yv == c, [c, text, kw, yv])
            for base in (2, 8, 10, 16):
                chk('render_base', x.base_repr(base) == spec_base(c, base), [c, base, x.base_repr(base)])
            if n >= 2:
                bs, hs = x.bin(prefix='0b'), x.hex()
                # raw mode: any width
                for text in (bs, hs):
                    y = Fxp(text, s, n, f, raw=True)
                    chk('parse_raw' + ('_wide' if wide else ''), int(y.val) == c, [c, text, int(y.val)])
                z = Fxp(0.0, s, n, f); z.set_val(bs, raw=True)
                chk('parse_raw_set_val', int(z.val) == c, [c, bs, int(z.val)])
                z = Fxp(0.0, s, n, f); z.from_bin(x.bin(), raw=True)
                chk('parse_raw_from_bin', int(z.val) == c, [c, x.bin(), int(z.val)])
                if wide:
                    # the same after a shallow copy of the receiver was resized to a narrow word (it shares the status record)
                    z = Fxp(0.0, s, n, f); w_ = z.copy(); w_.resize(n_word=16)
                    z.from_bin(x.bin(), raw=True)
                    chk('parse_raw_wide', int(z.val) == c, [c, 'after copy().resize(16)', int(z.val)])
                if n <= 53:
                    for text in (bs, hs):
                        y = Fxp(text, s, n, f)
                        chk('parse_value_ctor', int(y.val) == c, [c, text, int(y.val)])
                    z = Fxp(0.0, s, n, f); z(bs)
                    chk('parse_value_call', int(z.val) == c, [c, bs, int(z.val)])
                    z = Fxp(0.0, s, n, f); z.from_bin(x.bin())
                    chk('parse_value_from_bin', int(z.val) == c, [c, int(z.val)])
                    z = P.functions.from_bin(x.bin(), signed=s, n_word=n, n_frac=f)
                    chk('parse_value_from_bin_fn', int(z.val) == c, [c, int(z.val)])
        # arrays (1-d and 2-d) and input containers
        if n >= 2 and len(codes) >= 4:
            a = [codes[0], codes[-1], codes[len(codes) // 2], codes[1]]
            x1 = Fxp(a, s, n, f, raw=True)
            chk('array_render', x1.bin() == [spec_bin(c, n) for c in a] and x1.hex() == [spec_hex(c, n) for c in a], [a])
            x2 = Fxp([a[:2], a[2:]], s, n, f, raw=True)
            got = x2.bin(prefix='0b')
            chk('array2d_render', [list(r) for r in got] == [[spec_bin(c, n, None, '0b') for c in a[:2]], [spec_bin(c, n, None, '0b') for c in a[2:]]], [a])
            try:
                dots = x1.bin(frac_dot=True)
            except Exception as e:
                dots = 'raised %s' % type(e).__name__
            chk('array_render', dots == [spec_bin(c, n, f) for c in a], [a, 'frac_dot', dots])
            texts = x1.bin(prefix='0b')
            keep = list(texts)
            # the same strings carried by a NumPy string array (1-d and 2-d), raw mode: any width, any fraction length
            for arr_texts, want in ((P.np.array(texts), a), (P.np.array([texts[:2], texts[2:]]), a), (P.np.array(x1.hex()), a)):
                try:
                    yv = [int(v) for v in P.np.ravel(Fxp(arr_texts, s, n, f, raw=True).val)]
                except Exception as e:
                    yv = 'raised %s' % type(e).__name__
                chk('array_parse', yv == want, [want, 'ndarray of str', yv])
            y = Fxp(texts, s, n, f, raw=True)
            chk('array_parse', [int(v) for v in y.val] == a, [a, [int(v) for v in y.val]])
            chk('input_unchanged', texts == keep and all(isinstance(t, str) for t in texts), [texts])
            htexts = x1.hex(); hkeep = list(htexts)
            y = Fxp(htexts, s, n, f, raw=True)
            chk('array_parse', [int(v) for v in y.val] == a, [a, 'hex'])
            chk('input_unchanged', htexts == hkeep, [htexts])
            if n <= 53:
                y = Fxp(list(texts), s, n, f)
                chk('array_parse_value', [int(v) for v in y.val] == a, [a])
                t2 = [list(r) for r in got]
                t2_keep = [list(r) for r in t2]
                y = Fxp(t2, s, n, f)
                chk('array2d_parse_value', [int(v) for v in y.val.ravel()] == a, [a])
                chk('input_unchanged', t2 == t2_keep and all(isinstance(t, str) for r in t2 for t in r), ['nested list of strings', t2])
        return {'bad': bad, 'cases': cases, 'ncodes': len(codes)}

    def post(self, cfg, inp, obs):
        if obs['exc']:
            return {}
        n = cfg['n_word']
        wide = n >= 64
        names = ['stored', 'render_bin' + ('_wide' if wide else ''), 'render_bin_dot', 'render_bin_prefix', 'render_hex' + ('_wide' if wide else ''), 'render_base',
                 'render_hex_any_bin_prefix']
        if n >= 2:
            names += ['parse_short_prefix']
            names += ['parse_raw' + ('_wide' if wide else ''), 'parse_raw_set_val', 'parse_raw_from_bin', 'array_render', 'array2d_render', 'array_parse', 'input_unchanged']
            if n <= 53:
                names += ['parse_value_ctor', 'parse_value_call', 'parse_value_from_bin', 'parse_value_from_bin_fn', 'array_parse_value', 'array2d_parse_value']
        failed = {b[0] for b in obs['bad']}
        out = {k: (k not in failed) for k in names}
        out['details'] = len(obs['bad']) == 0
        return out


# ==========================================================================================================
# Deductive part: symbolic codes, symbolic digit strings (fxpv.strs.SStr)
# ==========================================================================================================
from fxpv import core as _core
from fxpv.core import SNum as _SNum
from specs.core import M, B, And, Or, Not, eq, pat


def _sym_bits(c, n):
    """expected n-character binary image of code c: plain str (native) or list of string items (symbolic)"""
    if isinstance(c, _SNum):
        from fxpv import strs
        p = _core.CTX.mod(c.t, 1 << n)
        bits = _core.CTX.bits(p, n)
        return [strs.Dig(2, bits[i], True, (p, i)) for i in range(n - 1, -1, -1)]
    return list(spec_bits(c, n))


def _sym_hex(c, n):
    w = (n + 3) // 4
    if isinstance(c, _SNum):
        from fxpv import strs
        p = _core.CTX.mod(c.t, 1 << n)
        out = []
        for j in range(w - 1, -1, -1):
            q = _core.CTX.div(p, 16 ** j) if j > 0 else p
            out.append(strs.Dig(16, _core.CTX.mod(q, 16), True, (p, j)))
        return out
    return list(format(c % (1 << n), '0%dX' % w))


def _with_point(items, n, f):
    items = list(items)
    if 0 < f < n:
        return items[:n - f] + ['.'] + items[n - f:]
    if f == 0:
        return items + ['.']
    if f == n:
        return ['.'] + items
    raise ValueError(f)


def _same_string(got, want_items):
    """got (str or SStr) equals the expected item list"""
    from fxpv import strs
    if isinstance(got, strs.SStr) or any(not isinstance(i, str) for i in want_items):
        want = strs.mk(want_items)
        r = (got == want) if isinstance(got, strs.SStr) else (want == got)
        return B(r) if not isinstance(r, bool) else r
    return got == ''.join(want_items)


def _numeral_ok(got, c, base):
    """`got` is the sign-magnitude numeral of the integer c in `base`: optional '-', digits of |c| without a leading zero
    ('0' for zero), digit values summing to c"""
    from fxpv import strs
    items = strs._items_of(got) if isinstance(got, strs.SStr) else list(got)
    neg = bool(items) and items[0] == '-'
    if neg:
        items = items[1:]
    if not items:
        return False
    vals = []
    for it in items:
        if isinstance(it, str):
            i = '0123456789ABCDEF'.find(it)
            if i < 0 or i >= base:
                return False
            vals.append(i)
        else:
            if it.base != base or not it.upper:
                return False
            vals.append(M(_SNum(it.t)))
    total = 0
    for v in vals:
        total = total * base + v
    cm = M(c)
    lead = vals[0]
    return And(eq(total, -cm if neg else cm), Or(len(vals) == 1, Not(eq(lead, 0))), Not(And(neg, eq(total, 0))))


def _flat_strs(r):
    """the strings of a (nested) list / array of strings, in logical (row-major) order"""
    if isinstance(r, str):
        return [r]
    if isinstance(r, (list, tuple)):
        return [y for x in r for y in _flat_strs(x)]
    return [y for x in elems(r) for y in _flat_strs(x)]


@contract
class StringsProof(Contract):
    """Deductive part of C11 (codes symbolic, all codes of the format at once): bin() with / without binary point
    and prefix and hex() are the specified digit strings of the n_word-bit two's-complement image; parsing the
    rendered binary / hex string (raw mode any width, value mode n_word <= 53) through the constructor, set_val
    and from_bin restores the code.  np.binary_repr, int(str, base), bin() and '{:0{w}X}'.format are assumed contracts."""
    name = 'objects:Fxp.bin/hex + parsing [symbolic codes]'
    layer = 5
    uses = ('utils:wrap', 'utils:clip', 'objects:Fxp._get_conv_factor', 'objects:Fxp._round', 'objects:Fxp._overflow_action')
    props = {'*': ['C11'], 'render_bin': ['C11', 'C18'], 'render_hex': ['C11', 'C18'], 'parse_raw_bin': ['C11', 'C18'], 'parse_raw_hex': ['C11', 'C18']}
    conditional_clauses = ('parse_value_bin', 'parse_value_hex', 'parse_from_bin', 'render_bin_dot', 'render_base2', 'render_base16', 'render_shape')

    def configs(self, tier):
        words = (2, 3, 4, 8, 16, 33, 64) if tier == 'quick' else (2, 3, 4, 5, 7, 8, 9, 12, 16, 31, 32, 33, 53, 63, 64, 65, 128)
        for n in words:
            for s in (True, False):
                for f in sorted({0, n // 2, n}):
                    yield dict(signed=s, n_word=n, n_frac=f)
        # 1-d arrays (two symbolic codes): every element rendered / parsed by its own digits
        for n in ((3, 8, 16) if tier == 'quick' else (2, 3, 4, 8, 12, 16, 24)):       # paths grow as (n_word + 1)^2 for two elements
            for s in (True, False):
                for f in sorted({0, n // 2}):
                    yield dict(signed=s, n_word=n, n_frac=f, shape=[2])
        # 2-d arrays in C and Fortran (transposed) memory order: rendering only, every position shows its own code
        for s in (True, False):
            for fo in (False, True):
                yield dict(signed=s, n_word=3, n_frac=1, shape=[2, 2], forder=fo)

    def inputs(self, cfg, D):
        return {'c': codes_in(D, 'c', nelem(cfg.get('shape', [])), cfg['signed'], cfg['n_word'])}

    def run(self, cfg, P, inp):
        s, n, f = cfg['signed'], cfg['n_word'], cfg['n_frac']
        x = make_fxp(P, s, n, f, codes=inp['c'], shape=tuple(cfg.get('shape', ())), vdtype=float, forder=bool(cfg.get('forder')))
        if len(cfg.get('shape', ())) == 2:
            return {'bin2': _flat_strs(x.bin()), 'hex2': _flat_strs(x.hex()), 'bin_pref2': _flat_strs(x.bin(prefix='0b'))}
        o = {'bin': x.bin(), 'bin_dot': x.bin(frac_dot=True), 'bin_pref': x.bin(prefix='0b'), 'hex': x.hex()}
        if n <= 16 and not cfg.get('shape'):
            o['base2'] = x.base_repr(2); o['base16'] = x.base_repr(16)
        o['raw_bin'] = P.Fxp(o['bin_pref'], s, n, f, raw=True).val
        o['raw_hex'] = P.Fxp(o['hex'], s, n, f, raw=True).val
        z = P.Fxp(0.0, s, n, f); z.from_bin(o['bin'], raw=True)
        o['from_bin'] = z.val
        if n <= 53:
            o['val_bin'] = P.Fxp(o['bin_pref'], s, n, f).val
            o['val_hex'] = P.Fxp(o['hex'], s, n, f).val
        return o

    def post(self, cfg, inp, obs):
        if obs['exc']:
            return {}
        s, n, f = cfg['signed'], cfg['n_word'], cfg['n_frac']
        if len(cfg.get('shape', ())) == 2:
            k = len(inp['c'])
            out = {'render_shape': all(len(obs[key]) == k for key in ('bin2', 'hex2', 'bin_pref2'))}
            if out['render_shape']:
                out['render_bin'] = And(*[_same_string(obs['bin2'][i], _sym_bits(inp['c'][i], n)) for i in range(k)])
                out['render_bin_prefix'] = And(*[_same_string(obs['bin_pref2'][i], ['0', 'b'] + _sym_bits(inp['c'][i], n)) for i in range(k)])
                out['render_hex'] = And(*[_same_string(obs['hex2'][i], ['0', 'x'] + _sym_hex(inp['c'][i], n)) for i in range(k)])
            return out
        if cfg.get('shape'):
            # arrays: bin()/hex() return one string per element, parsing a list of strings restores every code
            k = len(inp['c'])
            lists_ok = all(isinstance(obs[key], list) and len(obs[key]) == k for key in ('bin', 'bin_dot', 'bin_pref', 'hex'))
            out = {'render_shape': lists_ok}
            if not lists_ok:
                return out
            def every(fn):
                return And(*[fn(i, inp['c'][i]) for i in range(k)])
            out['render_bin'] = every(lambda i, c: _same_string(obs['bin'][i], _sym_bits(c, n)))
            out['render_bin_dot'] = every(lambda i, c: _same_string(obs['bin_dot'][i], _with_point(_sym_bits(c, n), n, f)))
            out['render_bin_prefix'] = every(lambda i, c: _same_string(obs['bin_pref'][i], ['0', 'b'] + _sym_bits(c, n)))
            out['render_hex'] = every(lambda i, c: _same_string(obs['hex'][i], ['0', 'x'] + _sym_hex(c, n)))
            for key, cl in (('raw_bin', 'parse_raw_bin'), ('raw_hex', 'parse_raw_hex'), ('from_bin', 'parse_from_bin'),
                            ('val_bin', 'parse_value_bin'), ('val_hex', 'parse_value_hex')):
                if key in obs:
                    got = elems(obs[key])
                    out[cl] = And(len(got) == k, *[eq(M(g), M(c)) for g, c in zip(got, inp['c'])]) if len(got) == k else False
            return out
        c = inp['c'][0]
        bits = _sym_bits(c, n)
        out = {'render_bin': _same_string(obs['bin'], bits),
               'render_bin_dot': _same_string(obs['bin_dot'], _with_point(bits, n, f)),
               'render_bin_prefix': _same_string(obs['bin_pref'], ['0', 'b'] + bits),
               'render_hex': _same_string(obs['hex'], ['0', 'x'] + _sym_hex(c, n))}
        if 'base2' in obs:
            out['render_base2'] = _numeral_ok(obs['base2'], c, 2)
            out['render_base16'] = _numeral_ok(obs['base16'], c, 16)
        cm = M(c)
        one = lambda k: M(elems(obs[k])[0])
        out['parse_raw_bin'] = eq(one('raw_bin'), cm)
        out['parse_raw_hex'] = eq(one('raw_hex'), cm)
        out['parse_from_bin'] = eq(one('from_bin'), cm)
        if n <= 53:
            out['parse_value_bin'] = eq(one('val_bin'), cm)
            out['parse_value_hex'] = eq(one('val_hex'), cm)
        return out
