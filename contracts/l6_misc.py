"""Comparisons and numeric conversions (C16); reset and flag histories (C04); views, copies and
configuration validation (C20)."""
from fractions import Fraction
from fxpv.harness import Contract, contract
from specs.core import *
from contracts.common import *
from contracts.l2_core import MODES
from contracts.l3_fxp import LOWER, meta_clauses


def c16_formats(tier):
    out = []
    words = (1, 2, 8, 24) if tier == 'quick' else (1, 2, 3, 4, 8, 16, 24)
    for s in (True, False):
        for n in words:
            for f in sorted({-1, 0, n // 2, n + 1}):
                out.append((s, n, f))
    return out


@contract
class Conversions(Contract):
    """get_val / astype(float) / float() return exactly code*2^-n_frac; astype(int) / int() its floor; bool()
    is true iff the code is non-zero; raw() is the signed code and uraw() its n_word-bit two's-complement image."""
    name = 'objects:Fxp.astype/get_val/raw/uraw/__int__/__float__/__bool__'
    layer = 4
    uses = ('objects:Fxp._get_conv_factor',)
    props = {'*': ['C16'], 'get_val': ['C16', 'C01']}

    def configs(self, tier):
        for (s, n, f) in c16_formats(tier):
            for shape in ([], [2]):
                for vdtype in ('float', 'int'):
                    if vdtype == 'int' and f > 0:
                        continue      # representation invariant: an integer value dtype never coexists with fraction bits
                    yield dict(fmt=[s, n, f], shape=shape, vdtype=vdtype)
        # objects BUILT (not pre-fabricated) from containers whose NumPy dtype is a non-default integer: the value type must
        # still end up consistent with the fraction bits
        for (s, n, f) in [(True, 8, 4), (False, 8, 2), (True, 24, 12)]:
            for carrier in ('nplist:int32', 'nplist:uint8', 'arr:int16'):
                yield dict(fmt=[s, n, f], shape=[2], vdtype='float', built_from=carrier)
        # objects that got their fraction bits through a route that starts from an INTEGER-valued object: like= an integer
        # reference with n_frac overridden and a raw code; resize(restore_val=False) of an integer-valued object, then a raw store
        for (s, n, f) in [(True, 8, 2), (False, 8, 1), (True, 8, 9), (False, 4, 3)]:
            for via in ('like_int_ref', 'resize_norestore', 'template_int_ref'):
                for shape in ([], [2]):
                    yield dict(fmt=[s, n, f], shape=shape, vdtype='float', via=via)
        # objects DERIVED from other objects by a real library operation (transpose, reversed view, element, flatten, shallow copy)
        for (s, n, f) in [(True, 4, -1), (True, 8, 3), (False, 3, 0)]:
            for der, shape in (('T', [2, 2]), ('T', [2, 3]), ('rev', [2]), ('item', []), ('flatten', [2]), ('copy', [2]), ('copy', [])):
                for vdtype in ('float', 'int'):
                    if vdtype == 'int' and f > 0:
                        continue
                    yield dict(fmt=[s, n, f], shape=shape, vdtype=vdtype, der=der)
        # 2-d arrays in C and in Fortran (column-major / transposed) memory order: every position reads its own code
        for (s, n, f) in [(True, 4, -1), (False, 3, 0), (True, 8, 3), (True, 8, -2)]:
            for shape in ([2, 2], [2, 3]):
                for fo in (False, True):
                    for vdtype in ('float', 'int'):
                        if vdtype == 'int' and f > 0:
                            continue
                        yield dict(fmt=[s, n, f], shape=shape, vdtype=vdtype, forder=fo)

    def inputs(self, cfg, D):
        s, n, f = cfg['fmt']
        if cfg.get('built_from'):
            hi_k = min(100, ((1 << (n - 1 - f)) - 1) if s else ((1 << (n - f)) - 1))
            ks = [D.int('k%d' % i, 0 if (not s or 'uint' in cfg['built_from']) else -hi_k, hi_k) for i in range(2)]
            return {'k': ks, 'c': [k * (1 << f) for k in ks]}
        return {'c': codes_in(D, 'c', nelem(cfg['shape']), s, n)}

    def run(self, cfg, P, inp):
        s, n, f = cfg['fmt']
        if cfg.get('built_from'):
            kind, dt = cfg['built_from'].split(':')
            car = [P.npscalar(k, dt) for k in inp['k']] if kind == 'nplist' else P.arr(inp['k'], dtype=dt, shape=(2,))
            x = P.Fxp(car, s, n, f)
        elif cfg.get('der'):
            x = derived_fxp(P, cfg['der'], s, n, f, inp['c'], tuple(cfg['shape']), vdtype=float if cfg['vdtype'] == 'float' else int)
        elif cfg.get('via'):
            k0 = len(inp['c'])
            ref = make_fxp(P, s, n, 0, codes=[0] * k0, shape=tuple(cfg['shape']), vdtype=int)
            raw_in = inp['c'][0] if cfg['shape'] == [] else list(inp['c'])
            if cfg['via'] == 'like_int_ref':
                x = P.Fxp(raw_in, like=ref, n_frac=f, raw=True)
            elif cfg['via'] == 'template_int_ref':
                P.Fxp.template = ref
                try:
                    x = P.Fxp(raw_in, n_frac=f, raw=True)
                finally:
                    P.Fxp.template = None
            else:
                x = ref
                x.resize(n_frac=f, restore_val=False)
                x.set_val(raw_in, raw=True)
        else:
            x = make_fxp(P, s, n, f, codes=inp['c'], shape=tuple(cfg['shape']), vdtype=float if cfg['vdtype'] == 'float' else int, forder=bool(cfg.get('forder')))
        o = {'get_val': x.get_val(), 'as_float': x.astype(float), 'as_int': x.astype(int), 'raw': x.raw(), 'uraw': x.uraw(),
             'call': x()}
        if cfg['shape'] == []:
            o.update(py_float=x.__float__(), py_int=x.__int__(), py_bool=x.__bool__())     # what float(x) / int(x) / bool(x) call
            o['float_is_float'] = isinstance(o['py_float'], float) or P.symbolic
        elif len(cfg['shape']) == 2:
            o['shapes'] = [list(o[k].shape) for k in ('get_val', 'as_float', 'as_int', 'raw', 'uraw', 'call')]
        else:
            o['item1'] = x.astype(float, index=1)
            it = x[1]          # an element object: built from a template and handed the code, its cached attributes are not refreshed
            o.update(item_bool=it.__bool__(), item_float=it.__float__(), item_int=it.__int__(), item_raw=it.raw(), item_get=it.get_val())
        return o

    def post(self, cfg, inp, obs):
        if obs['exc']:
            return {}
        s, n, f = cfg['fmt']
        cs = [M(c) for c in inp['c']]
        out = {}
        isint = cfg['vdtype'] == 'int'
        for i, c in enumerate(cs):
            v = scale2(c, -f)
            fl = floor(v)
            want = fl if isint else v
            out['get_val[%d]' % i] = eq(M(elems(obs['get_val'])[i]), want)
            out['call[%d]' % i] = eq(M(elems(obs['call'])[i]), want)
            out['as_float[%d]' % i] = eq(M(elems(obs['as_float'])[i]), v)
            out['as_int[%d]' % i] = eq(M(elems(obs['as_int'])[i]), fl)
            out['raw[%d]' % i] = eq(M(elems(obs['raw'])[i]), c)
            out['uraw[%d]' % i] = eq(M(elems(obs['uraw'])[i]), pat(c, n))
        if cfg['shape'] == []:
            v = scale2(cs[0], -f)
            out['py_float'] = eq(M(obs['py_float']), v)
            out['py_int'] = eq(M(obs['py_int']), floor(v))
            out['py_bool'] = Iff(B(obs['py_bool']), Not(eq(cs[0], 0)))
        elif len(cfg['shape']) == 2:
            out['shape'] = all(sh == list(cfg['shape']) for sh in obs['shapes'])
        else:
            out['item'] = eq(M(elems(obs['item1'])[0]), scale2(cs[1], -f))
            v1 = scale2(cs[1], -f)
            out['item_object'] = And(Iff(B(obs['item_bool']), Not(eq(cs[1], 0))), eq(M(obs['item_float']), v1), eq(M(obs['item_int']), floor(v1)),
                                     eq(M(elems(obs['item_raw'])[0]), cs[1]), eq(M(elems(obs['item_get'])[0]), floor(v1) if isint else v1))
        return out


@contract
class Comparisons(Contract):
    """<, <=, ==, !=, >, >= between two Fxp of any formats, and between an Fxp and a plain number, return the
    truth value of the same relation between the exact stored values (elementwise)."""
    name = 'objects:Fxp.__lt__..__ge__'
    layer = 4
    uses = ('objects:Fxp._get_conv_factor',)
    props = {'*': ['C16']}

    def configs(self, tier):
        fm = c16_formats(tier)
        for i, x in enumerate(fm):
            for j, y in enumerate(fm):
                if tier == 'quick' and (i + j) % 3:
                    continue
                yield dict(x=list(x), y=list(y), shape=[] if (i + j) % 2 else [2], other='fxp')
                # integer-typed operands (vdtype int arises for objects built from ints with n_frac <= 0)
                if x[2] <= 0 or y[2] <= 0:
                    yield dict(x=list(x), y=list(y), shape=[2] if (i + j) % 2 else [], other='fxp', xint=x[2] <= 0, yint=y[2] <= 0)
            yield dict(x=list(x), y=None, shape=[], other='float')
            yield dict(x=list(x), y=None, shape=[2], other='int')
            # operands DERIVED from other objects first (transposed, reversed view, element, flattened, shallow copy): stale caches / layouts
            if i % 2 == 0:
                y2 = fm[(i + 3) % len(fm)]
                for der, shape in (('T', [2, 2]), ('rev', [2]), ('item', []), ('flatten', [2]), ('copy', [2])):
                    yield dict(x=list(x), y=list(y2), shape=shape, other='fxp', xder=der, xint=(x[2] <= 0 and der in ('T', 'item')))
                    yield dict(x=list(y2), y=list(x), shape=shape, other='fxp', yder=der)
                    yield dict(x=list(x), y=None, shape=shape, other='float', xder=der)
            if x[2] <= 0:
                yield dict(x=list(x), y=None, shape=[2], other='float', xint=True)
                yield dict(x=list(x), y=None, shape=[], other='int', xint=True)

    def inputs(self, cfg, D):
        s, n, f = cfg['x']
        d = {'cx': codes_in(D, 'cx', nelem(cfg['shape']), s, n)}
        if cfg['other'] == 'fxp':
            s2, n2, f2 = cfg['y']
            d['cy'] = codes_in(D, 'cy', nelem(cfg['shape']), s2, n2)
        elif cfg['other'] == 'float':
            d['num'] = D.real('num', -2**40, 2**40)
        else:
            d['num'] = D.int('num', -2**40, 2**40)
        return d

    def run(self, cfg, P, inp):
        s, n, f = cfg['x']
        if cfg.get('xder'):
            x = derived_fxp(P, cfg['xder'], s, n, f, inp['cx'], tuple(cfg['shape']), vdtype=int if cfg.get('xint') else float)
        else:
            x = make_fxp(P, s, n, f, codes=inp['cx'], shape=tuple(cfg['shape']), vdtype=int if cfg.get('xint') else float)
        if cfg['other'] == 'fxp':
            s2, n2, f2 = cfg['y']
            if cfg.get('yder'):
                y = derived_fxp(P, cfg['yder'], s2, n2, f2, inp['cy'], tuple(cfg['shape']), vdtype=int if cfg.get('yint') else float)
            else:
                y = make_fxp(P, s2, n2, f2, codes=inp['cy'], shape=tuple(cfg['shape']), vdtype=int if cfg.get('yint') else float)
        else:
            y = inp['num']
        return {'lt': x < y, 'le': x <= y, 'eq': x == y, 'ne': x != y, 'gt': x > y, 'ge': x >= y}

    def post(self, cfg, inp, obs):
        if obs['exc']:
            return {}
        s, n, f = cfg['x']
        out = {}
        for i, c in enumerate(inp['cx']):
            vx = scale2(M(c), -f)
            if cfg['other'] == 'fxp':
                vy = scale2(M(inp['cy'][i]), -cfg['y'][2])
            else:
                vy = M(inp['num'])
            rel = {'lt': vx < vy, 'le': vx <= vy, 'eq': eq(vx, vy), 'ne': Not(eq(vx, vy)), 'gt': vx > vy, 'ge': vx >= vy}
            for k, want in rel.items():
                out['%s[%d]' % (k, i)] = Iff(B(elems(obs[k])[i]), want)
        return out


# ==========================================================================================================
@contract
class Reset(Contract):
    """reset() clears overflow / underflow / inaccuracy and leaves every other key of the status record
    present with its value; nothing else of the object changes."""
    name = 'objects:Fxp.reset'
    layer = 4
    props = {'*': ['C04'], 'rest_usable': ['C04', 'C18']}      # the extended-precision indicator survives reset()

    def configs(self, tier):
        for (s, n, f) in [(True, 8, 2), (False, 1, 0), (True, 52, 60), (True, 64, 3), (False, 128, 0)]:
            yield dict(fmt=[s, n, f])

    def inputs(self, cfg, D):
        return {'st': sym_status(D)}

    def run(self, cfg, P, inp):
        s, n, f = cfg['fmt']
        x = make_fxp(P, s, n, f, codes=[0], shape=(), status=inp['st'], vdtype=float)
        b = dict(x.__dict__); keys0 = set(x.status); ext0 = x.status['extended_prec']
        x.reset()
        frame = all(x.__dict__[k] is b[k] for k in b if k != 'status') and set(x.__dict__) == set(b)
        return {'status': dict(x.status), 'keys_kept': keys0 <= set(x.status), 'ext_same': x.status.get('extended_prec') == ext0, 'frame': frame}

    def post(self, cfg, inp, obs):
        if obs['exc']:
            return {}
        st = obs['status']
        return {'cleared': And(Not(B(st['overflow'])), Not(B(st['underflow'])), Not(B(st['inaccuracy']))),
                'rest_usable': And(obs['keys_kept'], obs['ext_same']), 'frame': obs['frame']}


@contract
class FlagHistory(Contract):
    """Lemma C04.history: after any history of writes / resets, a flag is raised iff its condition occurred in
    some write since the last reset (3-step symbolic instance: write, write | reset | resize, write)."""
    name = 'lemma:C04.history'
    layer = 6
    uses = LOWER
    props = {'*': ['C04']}

    def configs(self, tier):
        fm = [(True, 3, 1), (False, 2, 0)] if tier == 'quick' else [(True, 3, 1), (False, 2, 0), (True, 8, 4), (False, 8, -1)]
        for (s, n, f) in fm:
            for rule, mode in [('trunc', 'saturate'), ('around', 'wrap')] if tier == 'quick' else MODES:
                for mid in ('write', 'reset', 'resize_same', 'raising_callback', 'appended_callback'):
                    yield dict(fmt=[s, n, f], rule=rule, mode=mode, mid=mid)

    def inputs(self, cfg, D):
        f = cfg['fmt'][2]
        lim = Fraction(2**10)
        return {'v': [D.real('v%d' % i, -lim, lim) for i in range(3)]}

    def run(self, cfg, P, inp):
        s, n, f = cfg['fmt']
        cb = RecCallback()
        if cfg['mid'] == 'appended_callback':
            # the callback is registered AFTER construction, by appending to the object's own list; writes to another,
            # independently built object must not reach it, and objects built later must not start with it
            x = P.Fxp(inp['v'][0], s, n, f, rounding=cfg['rule'], overflow=cfg['mode'])
            x.callbacks.append(cb)
            y = P.Fxp(inp['v'][1], s, n, f, rounding=cfg['rule'], overflow=cfg['mode'])
            y.set_val(inp['v'][1])
            foreign = len(cb.log)
            x.set_val(inp['v'][2])
            return {'status': dict(x.status), 'val': x.val, 'log': sorted(cb.log), 'tail': sorted(cb.log), 'foreign': foreign, 'y_has_cb': len(y.callbacks)}
        x = P.Fxp(inp['v'][0], s, n, f, rounding=cfg['rule'], overflow=cfg['mode'], callbacks=[cb])
        mark = None
        if cfg['mid'] == 'raising_callback':
            # a callback that raises during the second write (the caller handles the exception) must not silence later notifications
            class Boom:
                def on_value_change(self, obj): raise RuntimeError('strict callback')
                def __deepcopy__(self, memo): return self
            boom = Boom()
            x.callbacks.append(boom)
            try:
                x(inp['v'][1])
            except RuntimeError:
                pass
            x.callbacks.remove(boom)
            mark = len(cb.log)
        elif cfg['mid'] == 'write':
            x(inp['v'][1])
        elif cfg['mid'] == 'reset':
            x.reset()
        else:
            x.resize(s, n, f)
        x.set_val(inp['v'][2])
        return {'status': dict(x.status), 'val': x.val, 'log': sorted(cb.log), 'tail': sorted(cb.log[mark:]) if mark is not None else None}

    def post(self, cfg, inp, obs):
        if obs['exc']:
            return {}
        s, n, f = cfg['fmt']
        lo, hi = range_of(s, n)
        vs = [M(v) for v in inp['v']]
        def conds(v):
            R = ROUND(scale2(v, f), cfg['rule'])
            c = OVF(R, s, n, cfg['mode'])
            return R > hi, R < lo, Not(eq(scale2(c, -f), v))
        w = [conds(v) for v in vs]
        steps = [0, 2] if cfg['mid'] not in ('write', 'raising_callback') else [0, 1, 2]
        if cfg['mid'] == 'appended_callback':
            out_extra = {'callbacks_only_own_writes': And(obs['foreign'] == 0, obs['y_has_cb'] == 0)}
        else:
            out_extra = {}
        if cfg['mid'] == 'reset':
            steps = [2]
        st = obs['status']
        out = {}
        for k, name in enumerate(('overflow', 'underflow', 'inaccuracy')):
            out['history_' + name] = Iff(B(st[name]), Or(*[w[i][k] for i in steps]))
        out['final_code'] = eq(M(elems(obs['val'])[0]), Q(vs[2], s, n, f, cfg['rule'], cfg['mode']))
        out.update(out_extra)
        if obs.get('tail') is not None:
            t = obs['tail']
            out['callbacks_after_exception'] = And(Iff('overflow' in t, w[2][0]), Iff('underflow' in t, w[2][1]), Iff('inaccuracy' in t, w[2][2]),
                                                   t.count('value_change') == 1, all(t.count(k) <= 1 for k in ('overflow', 'underflow', 'inaccuracy')))
        return out


# ==========================================================================================================
@contract
class IndexView(Contract):
    """x[i] is a view of the values: chained indexed assignment x[i][j] = v writes through to x (only that
    element changes) and the stored code is the C01 quantization of v."""
    name = 'objects:Fxp.__getitem__/__setitem__'
    layer = 5
    uses = LOWER
    props = {'*': ['C20'], 'written': ['C20', 'C01'], 'others_unchanged': ['C20', 'C01']}

    def configs(self, tier):
        for (s, n, f) in [(True, 8, 2), (False, 6, 3)]:
            for rule, mode in [('trunc', 'saturate'), ('around', 'wrap')]:
                for route in ('chained', 'direct', 'tuple_index', 'column', 'reversed'):
                    yield dict(fmt=[s, n, f], rule=rule, mode=mode, route=route)
                    if mode == 'saturate':
                        yield dict(fmt=[s, n, f], rule=rule, mode=mode, route=route, huge=True)
        # an integer-typed array (built from ints, n_frac <= 0) receiving a float item: the item is quantized, not cast first
        for (s, n, f) in [(True, 8, 0), (True, 8, -1), (False, 6, 0)]:
            for rule, mode in [('around', 'saturate'), ('floor', 'wrap'), ('ceil', 'saturate')]:
                for route in ('direct', 'tuple_index', 'set_val_index'):
                    yield dict(fmt=[s, n, f], rule=rule, mode=mode, route=route, vint=True)

    def inputs(self, cfg, D):
        s, n, f = cfg['fmt']
        if cfg.get('huge'):
            # a saturating sentinel of any magnitude (|v| >= 2^64 takes the object path inside set_val)
            return {'c': codes_in(D, 'c', 4, s, n), 'v': D.dyadic('v', -70)}
        return {'c': codes_in(D, 'c', 4, s, n), 'v': D.real('v', -2**20, 2**20)}

    def run(self, cfg, P, inp):
        s, n, f = cfg['fmt']
        x = make_fxp(P, s, n, f, codes=inp['c'], shape=(2, 2), cfg={'rounding': cfg['rule'], 'overflow': cfg['mode']}, vdtype=int if cfg.get('vint') else float)
        if cfg['route'] == 'set_val_index':
            x.set_val(inp['v'], index=(0, 1)); shares = True
        elif cfg['route'] == 'chained':
            y = x[0]
            shares = shares_buffer(y.val, x.val)
            y[1] = inp['v']
        elif cfg['route'] == 'column':          # a non-contiguous (strided) view
            y = x[:, 1]
            shares = shares_buffer(y.val, x.val)
            y[0] = inp['v']
        elif cfg['route'] == 'reversed':        # a view with a negative stride
            y = x[::-1]
            shares = shares_buffer(y.val, x.val)
            y[1][1] = inp['v']
        elif cfg['route'] == 'direct':
            x[0][1] = inp['v']; shares = True
        else:
            x[0, 1] = inp['v']; shares = True
        return {'val': x.val, 'shares': shares}

    def post(self, cfg, inp, obs):
        if obs['exc']:
            return {}
        s, n, f = cfg['fmt']
        cs = [M(c) for c in inp['c']]
        z = [M(c) for c in elems(obs['val'])]
        return {'view_shares_buffer': obs['shares'], 'shape': list(obs['val'].shape) == [2, 2],
                'written': eq(z[1], Q(M(inp['v']), s, n, f, cfg['rule'], cfg['mode'])),
                'others_unchanged': And(eq(z[0], cs[0]), eq(z[2], cs[2]), eq(z[3], cs[3]))}


def _state_objs(x):
    return [x.config, x.status, x.callbacks]


@contract
class Independence(Contract):
    """Objects derived by deepcopy(), the constructor with like= / template / config=, or Fxp(x) share no
    mutable state (configuration, status record, value buffer, callbacks list) with their source; mutating
    either afterwards leaves the other untouched."""
    name = 'objects:Fxp.derivation-independence'
    layer = 5
    uses = LOWER
    props = {'*': ['C20']}

    FMTS = [[True, 8, 2]]

    def configs(self, tier):
        for fmt in self.FMTS:
            for route in ('deepcopy', 'ctor_like', 'ctor_template', 'ctor_config', 'ctor_from_fxp', 'fxp_like_fn', 'unrelated'):
                for shape in ([], [2]):
                    yield dict(route=route, shape=shape, fmt=list(fmt))

    def inputs(self, cfg, D):
        s, n, f = cfg['fmt']
        return {'c': codes_in(D, 'c', nelem(cfg['shape']), s, n), 'v': D.real('v', -2**10, 2**10)}

    def run(self, cfg, P, inp):
        s, n, f = cfg['fmt']
        shape = tuple(cfg['shape'])
        tmpl = make_fxp(P, True, 12, 2, codes=[0], shape=(), vdtype=float)
        arr_tmpl = make_fxp(P, True, 10, 1, codes=[0], shape=(), vdtype=float)
        # the configuration itself holds mutable objects (output templates): they must be copied too
        src = make_fxp(P, s, n, f, codes=inp['c'], shape=shape, cfg={'rounding': 'around', 'overflow': 'wrap', 'op_out_like': tmpl,
                                                                     'array_op_out_like': arr_tmpl}, vdtype=float)
        r = cfg['route']
        v0 = list(elems(src.val))
        if r == 'unrelated':
            # two objects built independently by plain constructor calls share nothing either (no class-level / default-argument state)
            src = P.Fxp(inp['v'], s, n, f, rounding='around', overflow='wrap')
            v0 = list(elems(src.val))
            z = P.Fxp(inp['v'], s, n, f)
        elif r == 'deepcopy':
            z = src.deepcopy()
        elif r == 'ctor_like':
            z = P.Fxp(inp['v'], like=src)
        elif r == 'ctor_template':
            z = P.Fxp(inp['v'], template=src)
        elif r == 'ctor_config':
            z = P.Fxp(inp['v'], s, n, f, config=src.config)
        elif r == 'ctor_from_fxp':
            z = P.Fxp(src)
        else:
            z = P.functions.fxp_like(src, inp['v'])
        sep = z is not src and z.config is not src.config and z.status is not src.status and not shares_buffer(z.val, src.val)
        if r != 'ctor_config':
            sep = sep and (z.callbacks is not src.callbacks)
        if z.config.op_out_like is not None:
            sep = sep and z.config.op_out_like is not src.config.op_out_like and z.config.op_out_like.status is not src.config.op_out_like.status
        if z.config.array_op_out_like is not None:
            sep = sep and z.config.array_op_out_like is not src.config.array_op_out_like
        # mutate the derived object: flag-raising write, config change, reset; the source must not notice
        st0 = dict(src.status); cfg0 = {k: v for k, v in src.config.__dict__.items() if not k.endswith('_like')}
        z.config.rounding = 'floor'; z.config.overflow = 'saturate'
        z.set_val(1000.3)
        z.status['overflow'] = True
        src_same = same_status(src.status, st0) and {k: v for k, v in src.config.__dict__.items() if not k.endswith('_like')} == cfg0 and same_elems(elems(src.val), v0)
        # and the other way round
        zst0 = dict(z.status); zv0 = list(elems(z.val)); zc0 = {k: v for k, v in z.config.__dict__.items() if not k.endswith('_like')}
        src.config.rounding = 'ceil'
        src.set_val(-1000.3)
        src.reset()
        z_same = same_status(z.status, zst0) and same_elems(elems(z.val), zv0) and {k: v for k, v in z.config.__dict__.items() if not k.endswith('_like')} == zc0
        return {'separate': sep, 'source_unaffected': src_same, 'derived_unaffected': z_same}

    def post(self, cfg, inp, obs):
        if obs['exc']:
            return {}
        return {'separate': obs['separate'], 'source_unaffected': obs['source_unaffected'], 'derived_unaffected': obs['derived_unaffected']}


@contract
class IndependenceWide(Independence):
    """The same separation for extended-precision objects (object-dtype code buffers): a flag raised, or an overflow
    mode changed, on a derived 64+ bit object must not leak into its source (C18: flags of wide words are exact)."""
    name = 'objects:Fxp.derivation-independence[wide]'
    props = {'*': ['C18', 'C20']}
    FMTS = [[True, 70, 2], [False, 64, 0]]

    def configs(self, tier):
        for c in Independence.configs(self, tier):
            if c['route'] not in ('ctor_from_fxp', 'unrelated'):       # Fxp(wide_fxp) with symbolic codes: the solver does not come back (size inference over 70-bit terms)
                yield c


@contract
class ConfigSetters(Contract):
    """Config setters accept exactly the documented values; anything else raises ValueError and leaves the
    stored value unchanged."""
    name = 'objects:Config.setters'
    layer = 2
    props = {'*': ['C20']}
    LISTS = {'overflow': ['saturate', 'wrap'], 'rounding': ['around', 'floor', 'ceil', 'fix', 'trunc'],
             'shifting': ['expand', 'trunc', 'keep'], 'op_input_size': ['same', 'best'],
             'op_sizing': ['optimal', 'same', 'fit', 'largest', 'smallest'], 'op_method': ['raw', 'repr'],
             'const_op_sizing': ['optimal', 'same', 'fit', 'largest', 'smallest'], 'array_output_type': ['fxp', 'array'],
             'array_op_method': ['raw', 'repr'], 'dtype_notation': ['fxp', 'Q']}
    BAD = ['', 'Saturate', 'nope', None, 0, 1.5, ['wrap'], 'wrap ', b'wrap']

    def configs(self, tier):
        for attr, vals in self.LISTS.items():
            for v in vals:
                yield dict(attr=attr, value=v, valid=True)
            for i, v in enumerate(self.BAD):
                yield dict(attr=attr, bad_index=i, valid=False)
        yield dict(attr='template', valid=True, template_case=True)
        for attr in ('op_out', 'op_out_like', 'array_op_out', 'array_op_out_like'):
            for i in range(3):
                yield dict(attr=attr, bad_index=i, valid=False, fxp_attr=True)
        for attr, bad in (('n_word_max', [0, -1, 2.5, '64', None]), ('max_error', [0, -1e-3])):
            for i in range(len(bad)):
                yield dict(attr=attr, bad_index=i, valid=False, numeric=True)

    def run(self, cfg, P, inp):
        if cfg.get('template_case'):
            # a template passed to ONE Config (or Fxp) is copied into that object only: later objects start from the defaults
            d0 = P.Config()
            c1 = P.Config(template=P.Config(n_word_max=32, rounding='ceil', max_error=1e-3))
            c2 = P.Config()
            x = P.Fxp(0.5, True, 8, 2)
            return {'took_template': (c1.n_word_max, c1.rounding, c1.max_error) == (32, 'ceil', 1e-3),
                    'later_defaults': (c2.n_word_max, c2.rounding, c2.max_error, c2.overflow) == (d0.n_word_max, d0.rounding, d0.max_error, d0.overflow)
                                      and (x.config.n_word_max, x.config.rounding, x.config.max_error) == (d0.n_word_max, d0.rounding, d0.max_error),
                    'class_clean': type(c2).template is None and P.Fxp.template is None}
        c = P.Config()
        attr = cfg['attr']
        before = getattr(c, attr)
        if cfg['valid']:
            setattr(c, attr, cfg['value'])
            return {'stored': getattr(c, attr), 'raised': None, 'before': before}
        if cfg.get('fxp_attr'):
            v = ['x', 5, P.Config()][cfg['bad_index']]
        elif cfg.get('numeric'):
            v = {'n_word_max': [0, -1, 2.5, '64', None], 'max_error': [0, -1e-3]}[attr][cfg['bad_index']]
        else:
            v = self.BAD[cfg['bad_index']]
        try:
            setattr(c, attr, v)
            raised = None
        except ValueError:
            raised = 'ValueError'
        except TypeError:
            raised = 'TypeError'
        return {'stored': getattr(c, attr), 'raised': raised, 'before': before, 'same_obj': getattr(c, attr) is before or getattr(c, attr) == before}

    def post(self, cfg, inp, obs):
        if obs['exc']:
            return {}
        if cfg.get('template_case'):
            return {'template_applies_once': obs['took_template'], 'template_not_persistent': obs['later_defaults'] and obs['class_clean']}
        if cfg['valid']:
            return {'accepted': obs['stored'] == cfg['value'] and obs['raised'] is None}
        return {'rejected': obs['raised'] in ('ValueError', 'TypeError'), 'unchanged': bool(obs['same_obj'])}
